#!/usr/bin/env python3
"""tools/benigntest.py <src-dir> <id> [--checks C01,C02 | --all] [--skip-tests]

The opposite of tools/seedtest.py: <src-dir>/patch.diff is a realistic maintenance change that KEEPS the properties
true (refactor, correctly keyed cache, reworded messages, new optional flag / output field ...).  The patch is applied
to a scratch worktree of /repo HEAD (never to /repo), the repository's own suite must stay green, and every check whose
property is anchored in a touched file is run against the changed tree.  Any exit code other than 0 is a false alarm
(or a harness that depends on something the property does not promise) and has to be investigated.
Results go to /verif/benign/<id>/{patch.diff,notes.md,meta.json}.
"""
import argparse
import json
import os
import shutil
import subprocess
import sys
import tempfile

ROOT = os.path.dirname(os.path.dirname(os.path.abspath(__file__)))
sys.path.insert(0, os.path.join(ROOT, "tools"))
from mutate import TARGETS  # noqa: E402

PY = "/venv/bin/python"
ALL = ["C%02d" % i for i in range(1, 21)]
EXTRA = {"src/tally/spending_report.js": ["C13", "C12"], "src/tally/commands/run.py": ["C11", "C12", "C20", "C16", "C06"],
         "src/tally/commands/update.py": ["C15", "C20"], "src/tally/commands/workflow.py": [], "src/tally/commands/reference.py": [],
         "src/tally/commands/diag.py": ["C20"], "src/tally/colors.py": ["C11", "C16", "C20"]}


def sh(cmd, **kw):
    return subprocess.run(cmd, shell=isinstance(cmd, str), capture_output=True, text=True, **kw)


def main():
    ap = argparse.ArgumentParser()
    ap.add_argument("src")
    ap.add_argument("bid")
    ap.add_argument("--checks", default=None)
    ap.add_argument("--all", action="store_true")
    ap.add_argument("--skip-tests", action="store_true")
    ap.add_argument("--tier", default="quick")
    ap.add_argument("--merge", action="store_true", help="keep the recorded results of checks that are not re-run now")
    a = ap.parse_args()
    dst = os.path.join(ROOT, "benign", a.bid)
    os.makedirs(dst, exist_ok=True)
    if os.path.abspath(a.src) != os.path.abspath(dst):
        for f in ("patch.diff", "notes.md"):
            if os.path.exists(os.path.join(a.src, f)):
                shutil.copy(os.path.join(a.src, f), os.path.join(dst, f))
    patch = os.path.join(dst, "patch.diff")
    touched = [l[6:].strip() for l in open(patch, encoding="utf-8", errors="replace") if l.startswith("+++ b/")]
    if a.all:
        checks = ALL
    elif a.checks:
        checks = a.checks.split(",")
    else:
        checks = []
        for f in touched:
            for c in TARGETS.get(f, EXTRA.get(f, ALL if f not in EXTRA else [])):
                if c not in checks:
                    checks.append(c)
        prop = a.bid.split("-")[0]
        if prop in ALL and prop not in checks:
            checks.insert(0, prop)
    wt = tempfile.mkdtemp(prefix="benwt.", dir="/tmp")
    os.rmdir(wt)
    meta = {"id": a.bid, "touched": touched, "checks": checks, "ran": []}
    old = None
    if a.merge and os.path.exists(os.path.join(dst, "meta.json")):
        try:
            old = json.load(open(os.path.join(dst, "meta.json")))
        except Exception:  # noqa
            old = None
    try:
        r = sh(["git", "-C", "/repo", "worktree", "add", "--detach", "-f", wt, "HEAD"])
        assert r.returncode == 0, r.stderr
        meta["repo_head"] = sh(["git", "-C", "/repo", "rev-parse", "--short", "HEAD"]).stdout.strip()
        r = sh(["git", "-C", wt, "apply", "--3way", patch])
        if r.returncode != 0:
            r = sh(["git", "-C", wt, "apply", patch])
        meta["patch_applies"] = r.returncode == 0
        if r.returncode != 0:
            meta["apply_error"] = r.stderr[-400:]
        else:
            sh(["git", "-C", wt, "reset", "-q"])
            if not a.skip_tests:
                r = sh(f"cd {wt} && {PY} -m pytest -q -p no:cacheprovider --timeout=900 --continue-on-collection-errors 2>&1 | tail -1")
                meta["tests_tail"] = r.stdout.strip()
                meta["tests_green"] = "701 passed" in r.stdout and "12 failed" in r.stdout
            for c in checks:
                env = dict(os.environ, VERIF_REPO=wt, VERIF_EVIDENCE_DIR=os.path.join("/tmp", "verif-evidence-scratch", a.bid))
                r = sh([os.path.join(ROOT, "check"), c, "--tier", a.tier], env=env)
                kinds = [l.strip()[:400] for l in r.stdout.splitlines() if l.startswith("  kind=")]
                meta["ran"].append({"check": c, "exit": r.returncode, "first_kinds": kinds[:3],
                                    "summary": (r.stdout.strip().splitlines()[-1:] or [r.stderr[-400:]])[0][:300]})
        if old and meta.get("patch_applies"):
            # results of an earlier run (older version of the checks) stay on record for the checks not re-run now
            rerun = {x["check"] for x in meta["ran"]}
            for x in meta["ran"]:
                x["rerun_with_final_checks"] = True
            meta["ran"] += [x for x in old.get("ran", []) if x["check"] not in rerun]
            meta["checks"] = [x["check"] for x in meta["ran"]]
            for k in ("tests_tail", "tests_green"):
                if k in old and k not in meta:
                    meta[k] = old[k]
        meta["alarms"] = [x["check"] for x in meta["ran"] if x["exit"] != 0]
    finally:
        sh(["git", "-C", "/repo", "worktree", "remove", "--force", wt])
        shutil.rmtree(wt, ignore_errors=True)
        sh("rm -rf /tmp/playwright* /tmp/pytest-of-root")
    with open(os.path.join(dst, "meta.json"), "w") as f:
        json.dump(meta, f, indent=1)
    print(json.dumps({k: meta.get(k) for k in ("id", "patch_applies", "tests_tail", "checks", "alarms")}))
    for x in meta["ran"]:
        if x["exit"] != 0:
            print("  ALARM", x["check"], "exit", x["exit"], x["first_kinds"][:2], x["summary"])


if __name__ == "__main__":
    main()
