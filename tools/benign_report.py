#!/usr/bin/env python3
"""Summarise /verif/benign/*/meta.json as a markdown table (stdout)."""
import json
import os
import re

ROOT = os.path.dirname(os.path.dirname(os.path.abspath(__file__)))
rows = []
for d in sorted(os.listdir(os.path.join(ROOT, "benign"))):
    mp = os.path.join(ROOT, "benign", d, "meta.json")
    if not os.path.exists(mp):
        continue
    m = json.load(open(mp))
    notes = os.path.join(ROOT, "benign", d, "notes.md")
    what = ""
    if os.path.exists(notes):
        txt = " ".join(open(notes, encoding="utf-8", errors="replace").read().split())
        what = re.sub(r"^#+\s*", "", txt)[:110]
    files = ", ".join(sorted({os.path.basename(f) for f in m.get("touched", [])}))
    if not m.get("patch_applies"):
        res = "patch no longer applies (a later `fix:` rewrote the same lines) - not run"
    elif m.get("alarms"):
        res = "ALARM: " + ", ".join(m["alarms"])
    else:
        res = "silent (" + ", ".join(x["check"] for x in m.get("ran", [])) + ")"
    rows.append((d, what.replace("|", "/"), files, res))
print("| change | what it does | files | checks run -> result |")
print("|---|---|---|---|")
for r in rows:
    print("| " + " | ".join(r) + " |")
n = len(rows)
na = sum(1 for r in rows if r[3].startswith("patch no longer"))
al = sum(1 for r in rows if r[3].startswith("ALARM"))
print(f"\n{n} changes recorded, {na} not runnable any more, {al} with an alarm, {n - na - al} silent.")
