#!/usr/bin/env python3
"""Regenerate MANIFEST.json from the per-check metadata below (kept in one place so it stays valid)."""
import json
import os

ROOT = os.path.dirname(os.path.dirname(os.path.abspath(__file__)))

CHECKS = {
    # id: (level, technique, text, note, design_ref)
    "C06": ("exploration",
            "exhaustive small-scope enumeration (all multisets x permutations x source partitions) on the real analyzer vs reference bucket sums",
            "Every multiset of <=3 (quick) / <=4 (thorough) transactions over a 26-element alphabet covering every tag-precedence class, "
            "sign and zero, in every order and every split over two sources, is run through the real analyze_transactions and compared with "
            "bucket sums computed from the property statement (the breakdown sums must equal the total those buckets define) and with every other arrangement of the same multiset. Bounded-exhaustive, not a proof.",
            "amounts are multiples of 0.25 (exact float sums); alphabet and size bound as stated; reference rule = property statement",
            "DESIGN.md 4/C06"),
    "C13": ("exploration",
            "exhaustive product enumeration; differential execution of the JS in spending_report.js (node vm) against classification.py",
            "All 13 amounts x ~2000 tag lists (every subset, order and letter-case form of the special tags, mixed with ordinary tags) and all "
            "cash-flow triples are evaluated by both implementations and must agree exactly; Python is also compared with the statement's rule. Every set of <=3/4 of 12 transactions is rendered as a real HTML report whose scripts run under node against a stand-in for Vue; the totals card the application computes must equal the command-line classification.",
            "executes the JS under node, not in a browser (the application's setup() against a minimal stand-in for Vue; unfiltered totals card only); string tags only",
            "DESIGN.md 4/C13"),
}

CHECKS.update({
    "C01": ("exploration",
            "exhaustive small-scope enumeration of rule files (all ordered sequences of <=K blocks x preambles, .rules and legacy CSV) x transactions on the real engine; differential + deletion oracles",
            "Every ordered sequence of <=3 (quick) / <=4 (thorough) distinct rules over a 17-block .rules alphabet x 4 preambles and over a 13-row legacy CSV alphabet (every other CSV file behind a UTF-8 BOM) is "
            "written to disk, loaded through the same entry points `tally up` uses and through MerchantEngine.match, and run on 108 transactions (small files also as one statement with memo / type / location columns through parse_generic_csv). Expected winner = first "
            "categorising rule whose condition is true (truth taken from the real evaluator on the one-rule file, cross-checked against the reference interpreter for variable-free rules / an independent regex+modifier reader for CSV); "
            "deleting all false rules must leave the entire observable result unchanged; the Unknown merchant name must equal the name under an empty rule set.",
            "condition meaning is delegated to C04; alphabet-bounded; caches reset between files (history is C07's)",
            "DESIGN.md 4/C01"),
    "C02": ("exploration",
            "exhaustive small-scope enumeration of rule files in both rule modes x transactions; union oracle for tags and neutrality (delete all tag-only rules) oracle",
            "Every ordered sequence of <=3/4 rules over a 21-block alphabet (static, mixed-case and dynamic tags, two rules binding one let name to different constants behind the same {ref} tag, special tags from two rules, a := binder next to a dynamic tag reading that name; tag-only rules that outrank categorising ones by specificity or "
            "priority, share their match text, or carry subcategory/merchant) in first_match and most_specific mode, plus legacy CSV rows with pipe tags, on 120 transactions (incl. twins that differ only in custom fields): the tag "
            "set must equal the union of the resolved tags of all true rules (also after analyze_transactions), and removing every category-less rule must not change merchant/category/subcategory.",
            "dynamic tag values come from the real evaluator on the tag expression alone; tags compared as sets",
            "DESIGN.md 4/C02"),
    "C09": ("exploration",
            "exhaustive enumeration of all subsets x all permutations of <=K rules x transactions in most_specific mode against an AST-derived lexicographic rank key",
            "Every ordered sequence of <=3 (quick) / <=4 (thorough) distinct rules from a 20-rule alphabet (incl. patterns holding the other quote character, a 2100-character pattern and function names in other letter cases), plus every sequence of 4 / 5 rules over its 12 core rules, with two exact-tie pairs, a priority-0 rule, a same-category pair and a let-binding pair is evaluated on 30 transactions through "
            "engine.match, normalize_merchant, and normalize_merchant after the same file was first loaded in first_match mode; category must come from the top-ranked true "
            "categorising rule (ties to the earlier rule), subcategory from the top-ranked one that sets a subcategory, tags from all true rules; a legacy-CSV family (with an invalid row at every position) runs in most_specific mode through the library and `tally up --migrate`.",
            "rank key read from the AST; alphabet restricted to rules where a textual reading gives the same key (asserted at start-up)",
            "DESIGN.md 4/C09"),
})

CHECKS.update({
    "C14": ("exploration",
            "exhaustive product enumeration of legacy CSV rule files x boundary transactions; differential execution of the real migration (CSV rules vs migrated merchants.rules vs load_csv_as_engine)",
            "Every one-row CSV over 24 regex patterns (incl. non-ASCII) x 20 modifier forms x 4 merchant names x category set/empty x 4 tag forms, and every ordered pair (quick) / triple (thorough) "
            "over a 29-row reduced alphabet (incl. short rows, padded names, twin rows with a capturing group / a back-reference), is migrated by the real _migrate_csv_to_rules in a scratch budget; the generated file must load and normalize_merchant must give the "
            "same (merchant, category, subcategory, tag set) for every description x boundary amount x boundary date before and after, and through load_csv_as_engine.",
            "today fixed at 2025-06-15; three recorded known findings (relative dates, ' and ' inside a CSV regex, a comma inside a pipe-separated tag)",
            "DESIGN.md 4/C14"),
})

CHECKS.update({
    "C05": ("exploration",
            "exhaustive enumeration of cell tables x layouts x delimiters x header x decimal x sign; expected transactions computed from the cells by an independent reader; row-independence transition oracle",
            "Every table of <=2 (quick) / <=3 (thorough) rows over 41 row kinds (incl. six dates only a strict reading of the format rejects and a date followed by more text) is rendered under 7 layouts x 6 delimiter kinds (incl. regex delimiters with optional and named groups) x header/no header x 2 decimal conventions x 5 sign modes "
            "and read by the real resolve_source_format + parse_generic_csv; the result must equal the transactions derived from the cell table, and parse(table) must equal the "
            "concatenation of parse(row) for each row; small tables are read again behind a UTF-8 byte-order mark and must read the same.",
            "reference reader is Decimal-based and follows the statement; ambiguous numerals / trailing date text / unrepresentable rows excluded and listed in assumptions",
            "DESIGN.md 4/C05"),
    "C18": ("exploration",
            "exhaustive enumeration of column-token sequences (valid and invalid) x date formats x templates x spellings against a reference mapper; exhaustive header rows x date styles through the real inspect command with round-trip oracle",
            "All 11k (quick) / 111k (thorough) token sequences x 4 date formats (one with a time and %z) x 4 templates x 4 spellings must be parsed to exactly the reference positions/date format/sign mode or rejected (accepted strings are parsed twice; arrangements with a duplicate are also tried under every upper/lower-case mask); "
            "for every header row of <=4/5 cells over 18 header texts (x5 data date styles), plus a 5-column family with every ordered pair of further headers, on which `tally inspect` prints a suggestion, parse_format_string must accept it and select the "
            "date/description/amount columns inspect reported.",
            "arrangements with {description} plus a satisfiable template are not judged; inspect run in-process",
            "DESIGN.md 4/C18"),
    "C19": ("exploration",
            "exhaustive enumeration of token-sequence descriptions x processor prefixes through the real suggestion functions, loader and matcher; end-to-end discover->append->discover runs in forked CLI processes",
            "Every description of <=4 tokens over a 30-token alphabet (thorough adds every 5-token description over the 18 core tokens) (regex metacharacters, quotes, backslash, store numbers, zip codes, state codes, long tokens, non-ASCII incl. characters whose upper-case form is longer) "
            "x 6 prefixes: the suggested rule must load and, with a category filled in, match that description; 18/54 end-to-end budgets must end with an empty Unknown list.",
            "placeholders CATEGORY/SUBCATEGORY replaced textually; alphabet-bounded",
            "DESIGN.md 4/C19"),
})

CHECKS.update({
    "C07": ("model_checking",
            "explicit-state search over operation histories on the real process state: every history of <=D ops is replayed in a forked child, each observation executed in a grandchild forked from the reached state, compared with a fresh process",
            "All histories of length <=3 (quick) / <=4 (thorough) over 25 operations (loads of .rules/CSV/bad/no file in both modes, a reload that rewrites a file, whole in-process `tally up` runs on two budgets, classifications of 5 "
            "transactions incl. two that differ only in a custom field and one that makes a rule read a column a ragged supplemental row lacks, engine matches, 4 cache-colliding expressions, two fuzzy() thresholds on one text and a := binder / reader pair; one CSV file carries a relative-date row) are executed on the real module-level caches; on every "
            "(history, observation) transition the result must equal the same observation in a fresh process that performed only the last load (library observations made after a command-line run, which loads rules of its own, are not judged), and rules / supplemental rows / "
            "caller's field dict must be unchanged. States are histories (no abstraction), so every trace is an execution of the implementation.",
            "fresh process = fork of a worker that imported tally and never loaded or evaluated anything; depth- and alphabet-bounded",
            "DESIGN.md 4/C07"),
})

CHECKS.update({
    "C17": ("model_checking",
            "explicit-state BFS over layout-preserving edits of seed files (text-deduplicated) with the real loader as transition function; exhaustive single-point corruptions judged by a strict structural reader; corrupt budgets through forked CLI runs",
            "From the merchants seeds (1-2 of 8 sections x 4 preambles, incl. a let name bound twice) and 32 views seeds every text reachable by <=2 layout edits (<=3 for one-section seeds in thorough) is parsed by the real loader and must yield "
            "exactly the seed's structure (~0.9M states quick); edits include comments holding Unicode / C0 line-separator characters. Every single-line deletion, structural-character deletion, unknown key, malformed let/field/priority/match/filter and "
            "5 invalid-expression kinds on every seed must be rejected with the offending line or its header (or read as the strict reader reads it); every seed written to disk as LF / CRLF with and without a BOM must load to the same reading; 8 corruption kinds x "
            "`tally up` (4 forms incl. --quiet) / `diag` / `discover` (2) / `explain` (3) must show the error and must not behave as with an empty rules file.",
            "strict reader = mc/ref/rulesfile.py; ambiguous corruptions (duplicate single-valued keys) not judged",
            "DESIGN.md 4/C17"),
})

CHECKS.update({
    "C15": ("fault_enumeration",
            "exhaustive crash-point x torn-write and single-OSError enumeration over the recorded file-system effect log of the real migration code, with recovery (re-run) oracle",
            "For `tally up --migrate`, `tally init` and run_migrations on 37 budget variants (files carry one fixed time stamp; incl. half-migrated ones whose ./tally already holds same-named files and an earlier backup of exactly the live CSV's size) the command runs under a harness-side file-system interposer that numbers every create / "
            "flush / append / rename / mkdir / remove; for every effect k the run is repeated with a crash right after k (plus data torn to half / nothing when k lands data) and with an "
            "OSError instead of k (for a step issued by shutil.move also with the whole move failing, copy fallback included). Each resulting tree must keep every user file's bytes, must classify the probe statement with the user's rules either directly or after one fault-free "
            "re-run of the same command, and must never classify everything as Unknown while the rules exist on disk. The interposer is checked for transparency and for unowned effects "
            "on every case.",
            "crash = no later effect reaches the disk; no OS-level write reordering (tally never fsyncs); effects are those reachable through open/os.rename/replace/mkdir/remove",
            "DESIGN.md 4/C15"),
    "C20": ("model_checking",
            "explicit-state level-synchronous BFS over budget directory trees with the real CLI commands as transitions (forked processes), tree-hash visited set, frame-condition invariant on every transition",
            "From 17 initial budget trees (a second settings file next to the main one, zero-length configuration files, a user's own .gitignore and .skipped.csv, a settings file naming a custom rules file, new/old layout, missing views/rules, a views_file setting naming an absent file, legacy CSV with rules / header only / with existing backups incl. gaps in their numbering and unreferenced merchants.rules, CRLF and "
            "trailing-blank settings) all 16 commands (up under a second settings file with and without --migrate, up in 4 output modes and once started inside the config directory, explain x2, discover x2, diag, inspect, init, init <dir>, up --migrate) are applied to every reachable tree "
            "up to depth 3 (quick) / 6 or fixpoint (thorough); read-only commands must leave every file outside the output location byte-identical and create nothing outside it; init / "
            "--migrate must keep every user file (settings may only grow, the legacy CSV may only move to a fresh .bak* with identical bytes).",
            "non-interactive runs; bytes of tally-created files and the output location are not judged",
            "DESIGN.md 4/C20"),
})

CHECKS.update({
    "C03": ("exploration",
            "exhaustive enumeration of three expression-string corpora x load/evaluation contexts on the real evaluator under a runtime monitor (CPython audit hook, value-kind walker, before/after deep equality)",
            "2.9k node-instance strings (every expression node class / operator / call shape / literal kind x 15 nesting wrappers), 25k attribute-closure strings (15 receivers x every "
            "dir() name of 16 builtin types x 6 shapes, enumerated at run time) and 44k payload strings (classic escapes and all ordered pair splices), plus list results holding a generator as a later element, are loaded and evaluated "
            "directly, in the 6 positions of a .rules file and as view filter / variable (over a merchant with four payments out of date order); a residue family evaluates 13 name-binding expressions followed by 10 readers on another transaction (directly and as two rules of one engine). No audit event may be raised by evaluation (only `compile` of the text when parsing), every "
            "produced value / tag / field / transformed description must be plain data, transaction / rows / variables / ast.dump must be unchanged, and undocumented constructs must "
            "be rejected or fail as ExpressionError.",
            "strings outside the corpora are not covered; quick tier runs file contexts for the node corpus fully and for payloads round-robin, closure strings directly; thorough runs all contexts",
            "DESIGN.md 4/C03"),
})

CHECKS.update({
    "C08": ("exploration",
            "exhaustive product enumeration of ill-typed / partial / lazily failing expressions x positions x placements x transactions processed in sequence; differential oracle against a fresh engine and against the file with the failing element removed",
            "59 syntactically valid but failing expressions (type confusion, bad regexes, empty sequences, exhausted generators, unknown names, expressions failing only for some items, "
            "generators that fail when consumed) in each of 10 positions (match, match after a let: that shadows a global, let unused/used, a let chain, field, tag, transform before / after a decisive transform of the same field, top-level variable) at 3 placements, on 10 transactions fed through "
            "one engine with failing items first, via engine.match, normalize_merchant and parse_generic_csv; legacy CSV files with 8 unevaluable rows / 3 unevaluable tags; 14 failing view expressions as filter / view-local variable / global variable through "
            "analyze_transactions -> classify_by_sections. No exception may escape, all rows must come back, a failure on one item must not affect another, and the outcome for a "
            "failing item must equal that of the file without the failing element.",
            "failure for an item is decided by evaluating the expression alone with the real evaluator; loader-rejected files are outside the property",
            "DESIGN.md 4/C08"),
})

CHECKS.update({
    "C04": ("exploration",
            "exhaustive enumeration of a typed expression grammar up to an operator bound x transactions; differential execution of the real evaluator against an independent reference interpreter (translation to Python) plus equivalence-law instances",
            "All 6.8k (quick, <=2 operators) / ~100k (thorough, <=3) well-typed expressions over Bool/Num/Str/Rows layers are evaluated on 16 boundary transactions (incl. twins sharing a description, literal regex metacharacters and an amount half a cent off a literal) with supplemental "
            "rows by the real evaluator and by mc/ref/expr.py, and again without variables / sources; wherever the reference is defined the values must be identical. On every ordered pair of a 30-element Boolean basis x "
            "every transaction: double negation, both De Morgan laws, commutation of error-free and/or operands, letter-case invariance (names, literals, description), and "
            "agreement of evaluate_transaction with matches_transaction and a one-rule engine; all chains a o1 b o2 c over 6 operands x 36 operator pairs equal their conjunction; "
            "short-circuit with 5 erroring operands and := evaluation-order probes.",
            "reference clauses as tabulated in DESIGN.md; cases where the reference raises belong to C08; fuzzy thresholds and non-ASCII folding not judged",
            "DESIGN.md 4/C04"),
})

CHECKS.update({
    "C10": ("exploration",
            "exhaustive enumeration of views files (all sequences of <=K views over 33 filters) x merchant sets (<=3 of 15 payment histories) through the real analyse/classify chain against reference primitives recomputed from raw transactions; independence and totals transition oracles",
            "Every sequence of <=2 views over 33 filters incl. chained comparisons and two views sharing filter text and a local variable name (thorough: also <=3 over a 10-filter sub-alphabet) x every set of <=3 merchants from 15 payment histories incl. a 29 February payment and twelve equal payments runs through "
            "analyze_transactions -> classify_by_sections -> compute_section_totals; each (view, merchant) membership must equal the filter evaluated by mc/ref/views.py over the "
            "merchant's own raw payments (months, total, population cv, tags, by(), aggregates, period(), global and view-local variables), merchants tagged income/transfer/"
            "investment in any letter case never appear, an unevaluable filter excludes, a view's membership must equal its membership when it is the only view, and each view's "
            "total is the sum of its members' totals; a CLI family reads the same views out of `tally up` report data and `tally explain --view` combined with --category.",
            "cv with zero mean, by(week) across a year boundary and duplicate view names are not judged",
            "DESIGN.md 4/C10"),
})

CHECKS.update({
    "C12": ("exploration",
            "exhaustive enumeration of transaction subsets x views x output formats through the real analyser and all renderers; the HTML is decoded with html.parser + json and compared with the analysed data; printed figures compared with reference bucket sums",
            "Every subset of <=3 (quick) / <=4 (thorough) of 27 adversarial transactions (two that no categorising rule matched - one with a pattern-less match record, one with none -, three-decimal amounts, colliding merchant ids, </script>, quotes, backslashes, placeholder text, braces, "
            "non-ASCII, refunds, negative income, transfers, investment, zero-net merchant, two special tags on one transaction, a name equal to a suffixed id, </SCRIPT> in other spellings, falsy and date-valued extra fields) with and without views is rendered as HTML (embedded and separate files), "
            "JSON, Markdown (verbosity 0-2), text summary and views summary; no renderer may raise, every printed income/spending/credits/transfer/cash-flow figure must equal "
            "the analysed one at that format's precision, and the decoded HTML payload must contain every merchant and every transaction exactly once with identical fields and "
            "category sums that add up; quiet command-line runs must print a document that parses from its first byte.",
            "html.parser stands in for a browser; JSON judged on income_total / credits_total / net_cash_flow only",
            "DESIGN.md 4/C12"),
})

CHECKS.update({
    "C11": ("exploration",
            "deviation-bounded exhaustive enumeration of budget configurations (all budgets within <=B single-setting deviations of a default), each run through the real CLI in fresh forked processes and compared with a pipeline assembled from library components and abstract statement rows",
            "The default budget and every budget at <=2 (quick, ~950 budgets) / <=3 (thorough) deviations over 44 single-setting deviations (per-source layout, delimiter, header, "
            "decimal separator, sign mode, name, a leftover type: key next to the format string, missing / directory / invalid-UTF-8 file; rules as .rules / legacy CSV / none / dangling; rule mode; views none / broken; currency "
            "format; 1-3 sources incl. a twin with an identical format string and different overrides; supplemental source present / absent / with a Latin-1 byte; rule-mode spellings; source order) runs `tally up --format json -v`, "
            "`--format summary` and the HTML report. Merchants (category, subcategory, tags, totals, counts, raw descriptions), summary figures, view membership and HTML data must "
            "equal what normalize_merchant / analyze_transactions / classify_by_sections produce from the abstract rows; unreadable sources must be named.",
            "library components are trusted here (judged by C01/C05/C06/C10); message wording and merchant order are not judged",
            "DESIGN.md 4/C11"),
})

CHECKS.update({
    "C16": ("exploration",
            "exhaustive enumeration of budgets over rule-file feature subsets x rule mode x transform x supplemental; three-way differential execution of `tally up`, `tally explain` and `tally discover` through the real CLI in forked processes, with twin budgets as oracle for description probes",
            "Every budget over feature subsets (<=1 feature quick, all 64 subsets thorough) of {tag-only rule first, top-level variable, let+field, not contains(), weekday, \"X\" in "
            "description} x 2 rule modes x transform on/off x supplemental source on/off, plus legacy-CSV budgets and three budgets whose statement file is named by two data sources: for every merchant `up` reports, `explain <merchant>` must give the same "
            "category / subcategory / tags / pattern; for 15 (description, amount) probes (incl. sign-sensitive and blank-run-sensitive rules) `explain <description> --amount` must equal what `up` assigns to that row in a twin budget "
            "containing it; `discover --format json` must list exactly the raw descriptions `up` leaves Unknown with equal counts and totals.",
            "probes are independent of date / source / custom fields; each comparison is between real CLI runs in fresh processes",
            "DESIGN.md 4/C16"),
})

NOT_YET = {}

PROPS = [json.loads(l)["id"] for l in open(os.path.join(ROOT, "properties.jsonl"))]


def main():
    checks = []
    for pid in PROPS:
        if pid not in CHECKS:
            continue
        level, tech, text, note, ref = CHECKS[pid]
        checks.append({
            "property_id": pid,
            "quick_cmd": f"./check {pid} --tier quick",
            "thorough_cmd": f"./check {pid} --tier thorough",
            "evidence_file": f"/verif/evidence/{pid}.json",
            "replay_cmd_template": f"./check {pid} --replay {{path}}",
            "engine": "mc-python",
            "level_claimed": {"category": level, "text": text, "design_ref": ref},
            "level_note": note,
            "technique": tech,
        })
    na = [{"property_id": p, "reason": NOT_YET.get(p, "check not built yet in this round (work in progress; see DESIGN.md section 9)")}
          for p in PROPS if p not in CHECKS]
    man = {
        "version": 1,
        "setup_cmd": "sh ./setup.sh",
        "hooks": {
            "guard": "TALLY_VERIF",
            "enable": "no source hooks are needed: checks import /repo/src directly and patch clock / file-system / audit seams from the harness side; ./check exports TALLY_VERIF=1 for completeness",
            "baseline_off_cmd": "cd /repo && /venv/bin/python -m pytest -ra -q -p no:cacheprovider --timeout=900 --continue-on-collection-errors",
            "source_commits": [],
            "add_only": True,
        },
        "engines": [{
            "name": "mc-python",
            "path": "/verif/mc",
            "serves_properties": sorted(CHECKS),
            "kind_free_text": "hand-written bounded-exhaustive explorer for Python: stateless enumeration of small scopes, explicit-state BFS over operation histories, crash/fault enumeration; every explored case executes the real code from /repo/src",
        }],
        "checks": checks,
        "not_applicable": na,
        "notes": "All checks: ./check <ID> --tier quick|thorough. Exit 0 held / 1 VIOLATION (confirmed by replay in a fresh process) / 2 harness error. Known findings: /verif/known_findings.json.",
    }
    with open(os.path.join(ROOT, "MANIFEST.json"), "w") as f:
        json.dump(man, f, indent=1)
        f.write("\n")


if __name__ == "__main__":
    main()
