#!/bin/bash
# tools/mut.sh <patch.diff> <CHECK-ID>...   [env: TIER=quick SKIPTESTS=1]
# Applies the patch to a scratch worktree of /repo (never to /repo itself), runs the repository's own
# test suite there (must stay green = same pass/fail set as the clean tree), runs the named checks
# against the scratch tree (VERIF_REPO), then removes the worktree.
set -u
PATCH="$(readlink -f "$1")"; shift
WT="$(mktemp -d /tmp/mutwt.XXXXXX)"; rmdir "$WT"
git -C /repo worktree add --detach -f "$WT" HEAD >/dev/null 2>&1 || { echo "worktree failed"; exit 2; }
trap 'git -C /repo worktree remove --force "$WT" >/dev/null 2>&1; rm -rf "$WT"' EXIT
# carry uncommitted changes of /repo (none expected) - no; patch applies to HEAD
if ! git -C "$WT" apply "$PATCH"; then echo "PATCH DOES NOT APPLY"; exit 2; fi
if [ -z "${SKIPTESTS:-}" ]; then
  ( cd "$WT" && PYTHONPATH="$WT/src" /venv/bin/python -m pytest -q -p no:cacheprovider --timeout=900 --continue-on-collection-errors -x --deselect tests/test_cli.py --ignore=tests/test_report_html.py --ignore=tests/e2e 2>&1 | tail -3 )
  ( cd "$WT" && PYTHONPATH="$WT/src" /venv/bin/python -m pytest -q -p no:cacheprovider --timeout=900 --continue-on-collection-errors 2>&1 | tail -1 )
fi
rc=0
for id in "$@"; do
  VERIF_REPO="$WT" /verif/check "$id" --tier "${TIER:-quick}" 2>&1 | grep -E "VIOLATION|KNOWN-FINDING|HARNESS|tier=" | head -12
done
exit 0
