#!/usr/bin/env python3
"""tools/mutate.py - systematic single-edit mutants of tally's source, to measure what the checks detect.

  phase 1:  tools/mutate.py gen   [--per-file N]           -> mutation/mutants.jsonl   (deterministic selection)
  phase 2:  tools/mutate.py tests [--jobs 12]              -> mutation/tests.jsonl     (does the repository's own suite notice?)
  phase 3:  tools/mutate.py checks [--jobs 4 --nproc 4]    -> mutation/checks.jsonl    (do the mapped checks notice the survivors?)
  report :  tools/mutate.py report                         -> mutation/SUMMARY.md

Every mutant lives in a private scratch copy of /repo's working tree under /tmp (never in /repo); the checks are
pointed at it with VERIF_REPO.  Nothing here is registered in MANIFEST.json - this is a tool for testing the checks.
"""
import argparse
import ast
import concurrent.futures as cf
import json
import os
import re
import shutil
import subprocess
import sys

ROOT = os.path.dirname(os.path.dirname(os.path.abspath(__file__)))
OUT = os.environ.get("MUT_OUT") or os.path.join(ROOT, "mutation")
PY = "/venv/bin/python"

# source file -> checks whose property is anchored in it (cheapest first)
TARGETS = {
    "src/tally/expr_parser.py": ["C08", "C04", "C03", "C10", "C02", "C09", "C01", "C19", "C07"],
    "src/tally/merchant_engine.py": ["C08", "C17", "C02", "C09", "C01", "C14", "C19", "C07"],
    "src/tally/merchant_utils.py": ["C08", "C02", "C09", "C01", "C14", "C16", "C07"],
    "src/tally/modifier_parser.py": ["C14", "C01"],
    "src/tally/parsers.py": ["C05", "C18", "C11"],
    "src/tally/format_parser.py": ["C18", "C05", "C11"],
    "src/tally/config_loader.py": ["C11", "C17", "C20", "C16"],
    "src/tally/section_engine.py": ["C10", "C17", "C08"],
    "src/tally/analyzer.py": ["C06", "C12", "C10", "C11", "C16"],
    "src/tally/classification.py": ["C13", "C06", "C12"],
    "src/tally/report.py": ["C12", "C06"],
    "src/tally/migrations.py": ["C20", "C15", "C14"],
    "src/tally/cli.py": ["C20", "C15", "C14", "C11"],
    "src/tally/commands/discover.py": ["C19", "C16"],
    "src/tally/commands/explain.py": ["C16"],
    "src/tally/commands/up.py": ["C11", "C12", "C20"],
    "src/tally/commands/inspect.py": ["C18"],
    "src/tally/commands/init.py": ["C20", "C15"],
}

# round 2 (after the checks had moved to whole command-line runs): the glue files, judged by every check that drives them through the CLI
_UP = ["C11", "C12", "C16", "C20", "C07", "C09", "C10", "C15", "C17"]
GLUE = {"src/tally/commands/run.py": _UP, "src/tally/cli.py": _UP + ["C14", "C19"], "src/tally/analyzer.py": _UP + ["C06"],
        "src/tally/report.py": ["C12", "C06", "C10", "C11", "C20"], "src/tally/config_loader.py": _UP + ["C03", "C18"],
        "src/tally/commands/explain.py": ["C16", "C10", "C17"], "src/tally/commands/discover.py": ["C19", "C16", "C17"]}
if os.environ.get("MUT_ROUND") == "2":
    TARGETS = GLUE

CMP = {"<": "<=", "<=": "<", ">": ">=", ">=": ">", "==": "!=", "!=": "=="}
STRIP_METHODS = {"lower", "upper", "strip", "lstrip", "rstrip", "casefold", "title"}


def _offsets(src):
    """byte col -> char index helpers per line (files may hold non-ASCII)."""
    lines = src.split("\n")
    starts, pos = [], 0
    for ln in lines:
        starts.append(pos)
        pos += len(ln) + 1
    return lines, starts


def _abs(lines, starts, lineno, col):
    ln = lines[lineno - 1]
    return starts[lineno - 1] + len(ln.encode("utf-8")[:col].decode("utf-8"))


def gen_for(path, src):
    tree = ast.parse(src)
    lines, starts = _offsets(src)
    muts = []

    def seg(a, b):
        return src[a:b]

    def add(kind, a, b, new, node):
        old = src[a:b]
        if old == new:
            return
        muts.append({"kind": kind, "start": a, "end": b, "old": old, "new": new, "line": node.lineno})

    docstrings = set()
    for n in ast.walk(tree):
        if isinstance(n, (ast.FunctionDef, ast.ClassDef, ast.Module, ast.AsyncFunctionDef)) and n.body and isinstance(n.body[0], ast.Expr) \
                and isinstance(getattr(n.body[0], "value", None), ast.Constant) and isinstance(n.body[0].value.value, str):
            docstrings.add(id(n.body[0].value))
    for n in ast.walk(tree):
        if isinstance(n, ast.Compare) and len(n.ops) == 1:
            a = _abs(lines, starts, n.left.end_lineno, n.left.end_col_offset)
            b = _abs(lines, starts, n.comparators[0].lineno, n.comparators[0].col_offset)
            mid = seg(a, b)
            m = re.fullmatch(r"(\s*\)*\s*)(<=|>=|==|!=|<|>)(\s*\(*\s*)", mid)
            if m:
                add("cmp", a + len(m.group(1)), a + len(m.group(1)) + len(m.group(2)), CMP[m.group(2)], n)
            elif re.fullmatch(r"\s+not\s+in\s+", mid):
                add("cmp", a, b, " in ", n)
            elif re.fullmatch(r"\s+in\s+", mid):
                add("cmp", a, b, " not in ", n)
            elif re.fullmatch(r"\s+is\s+not\s+", mid):
                add("cmp", a, b, " is ", n)
            elif re.fullmatch(r"\s+is\s+", mid):
                add("cmp", a, b, " is not ", n)
        elif isinstance(n, ast.BoolOp):
            a = _abs(lines, starts, n.values[0].end_lineno, n.values[0].end_col_offset)
            b = _abs(lines, starts, n.values[1].lineno, n.values[1].col_offset)
            mid = seg(a, b)
            word = "and" if isinstance(n.op, ast.And) else "or"
            m = re.search(r"\b%s\b" % word, mid)
            if m:
                add("bool", a + m.start(), a + m.end(), "or" if word == "and" else "and", n)
        elif isinstance(n, ast.UnaryOp) and isinstance(n.op, ast.Not):
            a = _abs(lines, starts, n.lineno, n.col_offset)
            b = _abs(lines, starts, n.operand.lineno, n.operand.col_offset)
            if seg(a, b).strip() == "not":
                add("not", a, b, "", n)
        elif isinstance(n, ast.Constant) and id(n) not in docstrings:
            a = _abs(lines, starts, n.lineno, n.col_offset)
            b = _abs(lines, starts, n.end_lineno, n.end_col_offset)
            if isinstance(n.value, bool):
                add("const", a, b, "False" if n.value else "True", n)
            elif isinstance(n.value, int) and 0 <= n.value <= 1000 and seg(a, b).isdigit():
                add("const", a, b, str(n.value + 1), n)
        elif isinstance(n, ast.Call) and isinstance(n.func, ast.Attribute) and n.func.attr in STRIP_METHODS and not n.args and not n.keywords:
            a = _abs(lines, starts, n.func.value.end_lineno, n.func.value.end_col_offset)
            b = _abs(lines, starts, n.end_lineno, n.end_col_offset)
            add("dropcall", a, b, "", n)
        elif isinstance(n, ast.If):
            a = _abs(lines, starts, n.test.lineno, n.test.col_offset)
            b = _abs(lines, starts, n.test.end_lineno, n.test.end_col_offset)
            add("ifneg", a, b, "not (" + seg(a, b) + ")", n)
        elif isinstance(n, (ast.Continue, ast.Break)):
            a = _abs(lines, starts, n.lineno, n.col_offset)
            b = _abs(lines, starts, n.end_lineno, n.end_col_offset)
            add("jump", a, b, "break" if isinstance(n, ast.Continue) else "continue", n)
        elif isinstance(n, ast.Expr) and isinstance(n.value, ast.Call):
            f = n.value.func
            nm = f.attr if isinstance(f, ast.Attribute) else getattr(f, "id", "")
            if nm in ("print", "_print", "debug", "warn", "warning", "info"):
                continue
            a = _abs(lines, starts, n.lineno, n.col_offset)
            b = _abs(lines, starts, n.end_lineno, n.end_col_offset)
            add("delstmt", a, b, "pass", n)
        elif isinstance(n, ast.AugAssign) and isinstance(n.op, (ast.Add, ast.Sub)):
            a = _abs(lines, starts, n.target.end_lineno, n.target.end_col_offset)
            b = _abs(lines, starts, n.value.lineno, n.value.col_offset)
            mid = seg(a, b)
            if "+=" in mid:
                i = mid.index("+=")
                add("aug", a + i, a + i + 2, "-=", n)
            elif "-=" in mid:
                i = mid.index("-=")
                add("aug", a + i, a + i + 2, "+=", n)
    # validity: must still parse
    good = []
    for m in muts:
        new_src = src[:m["start"]] + m["new"] + src[m["end"]:]
        try:
            ast.parse(new_src)
        except SyntaxError:
            continue
        good.append(m)
    good.sort(key=lambda m: (m["start"], m["kind"]))
    return good


BASE = "/tmp/mutbase"      # snapshot of /repo's working tree taken by `gen`; mutants are edits of THIS copy


def cmd_gen(a):
    os.makedirs(OUT, exist_ok=True)
    shutil.rmtree(BASE, ignore_errors=True)
    subprocess.run(["rsync", "-a", "--exclude", ".git", "--exclude", "__pycache__", "/repo/", BASE + "/"], check=True)
    head = subprocess.run(["git", "-C", "/repo", "rev-parse", "--short", "HEAD"], capture_output=True, text=True).stdout.strip()
    open(os.path.join(OUT, "BASE_COMMIT"), "w").write(head + "\n")
    allm = []
    for rel in TARGETS:
        p = os.path.join(BASE, rel)
        if not os.path.exists(p):
            continue
        src = open(p, encoding="utf-8").read()
        ms = gen_for(p, src)
        n = len(ms)
        k = a.per_file
        off = int(os.environ.get("MUT_OFFSET", "0"))
        pick = ms if n <= k else [ms[((i * n) // k + off) % n] for i in range(k)]
        for i, m in enumerate(pick):
            m["file"] = rel
            m["id"] = "%s:%d:%s:%d" % (os.path.basename(rel), m["line"], m["kind"], m["start"])
            allm.append(m)
        print(f"{rel}: {n} candidate mutants, {len(pick)} selected")
    with open(os.path.join(OUT, "mutants.jsonl"), "w") as f:
        for m in allm:
            f.write(json.dumps(m) + "\n")
    print("total", len(allm))


def _workdir(slot):
    d = f"/tmp/mutrun/w{slot}"
    if not os.path.isdir(d):
        os.makedirs("/tmp/mutrun", exist_ok=True)
        subprocess.run(["rsync", "-a", BASE + "/", d + "/"], check=True)
    return d


def _apply(d, m):
    p = os.path.join(d, m["file"])
    src = open(os.path.join(BASE, m["file"]), encoding="utf-8").read()
    assert src[m["start"]:m["end"]] == m["old"], "stale mutant list"
    open(p, "w", encoding="utf-8").write(src[:m["start"]] + m["new"] + src[m["end"]:])


def _restore(d, m):
    shutil.copy(os.path.join(BASE, m["file"]), os.path.join(d, m["file"]))


def _slot():
    import multiprocessing
    ident = multiprocessing.current_process()._identity
    return ident[0] if ident else 0


def run_tests(m):
    d = _workdir(_slot())
    _apply(d, m)
    try:
        env = dict(os.environ, PYTHONPATH=os.path.join(d, "src"), PYTHONDONTWRITEBYTECODE="1", NO_COLOR="1")
        r = subprocess.run([PY, "-m", "pytest", "-q", "-p", "no:cacheprovider", "--timeout=300", "--continue-on-collection-errors"],
                           cwd=d, env=env, capture_output=True, text=True, timeout=1500)
        tail = r.stdout.strip().splitlines()[-1] if r.stdout.strip() else ""
    except subprocess.TimeoutExpired:
        tail = "TIMEOUT"
    finally:
        _restore(d, m)
    subprocess.run("rm -rf /tmp/playwright* /tmp/pytest-of-root 2>/dev/null", shell=True)
    survived = ("701 passed" in tail and "12 failed" in tail)
    return {"id": m["id"], "tail": tail[-120:], "survived": survived}


def run_checks(args):
    m, nproc = args
    d = _workdir(100 + _slot())
    _apply(d, m)
    res = {"id": m["id"], "file": m["file"], "line": m["line"], "kind": m["kind"], "old": m["old"][:80], "new": m["new"][:80], "checks": {}}
    try:
        for c in TARGETS[m["file"]]:
            env = dict(os.environ, VERIF_REPO=d, VERIF_NPROC=str(nproc), VERIF_EVIDENCE_DIR=f"/tmp/mutrun/ev{_slot()}")
            try:
                r = subprocess.run([os.path.join(ROOT, "check"), c], cwd=ROOT, env=env, capture_output=True, text=True, timeout=3600)
                rc = r.returncode
                first = next((ln for ln in r.stdout.splitlines() if ln.startswith("VIOLATION") or "HARNESS" in ln), "")
                kind = next((ln for ln in r.stdout.splitlines() if "kind=" in ln), "")
            except subprocess.TimeoutExpired:
                rc, first, kind = 124, "TIMEOUT", ""
            res["checks"][c] = {"rc": rc, "line": (kind or first)[:200]}
            if rc != 0:
                res["detected_by"] = c
                break
    finally:
        _restore(d, m)
    return res


def _load(name):
    p = os.path.join(OUT, name)
    if not os.path.exists(p):
        return []
    return [json.loads(l) for l in open(p) if l.strip()]


def cmd_tests(a):
    muts = _load("mutants.jsonl")
    done = {r["id"] for r in _load("tests.jsonl")}
    todo = [m for m in muts if m["id"] not in done]
    print("mutants", len(muts), "todo", len(todo))
    with cf.ProcessPoolExecutor(a.jobs) as ex, open(os.path.join(OUT, "tests.jsonl"), "a") as f:
        for r in ex.map(run_tests, todo):
            f.write(json.dumps(r) + "\n")
            f.flush()
    rs = _load("tests.jsonl")
    print("survived", sum(r["survived"] for r in rs), "of", len(rs))


def cmd_checks(a):
    muts = {m["id"]: m for m in _load("mutants.jsonl")}
    surv = [r["id"] for r in _load("tests.jsonl") if r["survived"]]
    done = {r["id"] for r in _load("checks.jsonl")}
    todo = [(muts[i], a.nproc) for i in surv if i not in done and i in muts]
    if a.only:
        todo = [t for t in todo if a.only in t[0]["file"]]
    if a.sample:
        # deterministic sample: every k-th survivor of each file, at most `sample` per file
        byf = {}
        for t in [(muts[i], a.nproc) for i in surv if i in muts]:
            byf.setdefault(t[0]["file"], []).append(t)
        pick = set()
        for f, ts in byf.items():
            n = len(ts)
            for j in range(min(a.sample, n)):
                pick.add(ts[(j * n) // min(a.sample, n)][0]["id"])
        todo = [t for t in todo if t[0]["id"] in pick]
    print("survivors", len(surv), "todo", len(todo))
    with cf.ProcessPoolExecutor(a.jobs) as ex, open(os.path.join(OUT, "checks.jsonl"), "a") as f:
        for r in ex.map(run_checks, todo):
            f.write(json.dumps(r) + "\n")
            f.flush()


def cmd_report(a):
    muts = _load("mutants.jsonl")
    tests = {r["id"]: r for r in _load("tests.jsonl")}
    checks = {r["id"]: r for r in _load("checks.jsonl")}
    by = {}
    for m in muts:
        row = by.setdefault(m["file"], {"mutants": 0, "killed_by_tests": 0, "survive_tests": 0, "detected": 0, "undetected": 0, "pending": 0})
        row["mutants"] += 1
        t = tests.get(m["id"])
        if not t:
            row["pending"] += 1
            continue
        if not t["survived"]:
            row["killed_by_tests"] += 1
            continue
        row["survive_tests"] += 1
        c = checks.get(m["id"])
        if not c:
            row["pending"] += 1
        elif c.get("detected_by"):
            row["detected"] += 1
        else:
            row["undetected"] += 1
    lines = ["| file | mutants | killed by the repository's tests | survive the tests | ... reported by a check | ... not reported | pending |", "|---|---|---|---|---|---|---|"]
    for f, r in by.items():
        lines.append(f"| {f} | {r['mutants']} | {r['killed_by_tests']} | {r['survive_tests']} | {r['detected']} | {r['undetected']} | {r['pending']} |")
    und = [c for c in checks.values() if not c.get("detected_by")]
    lines.append("")
    lines.append("Undetected survivors (each reviewed by hand in DESIGN.md section 10):")
    for c in sorted(und, key=lambda c: c["id"]):
        lines.append(f"- `{c['id']}`: `{c['old']}` -> `{c['new']}`")
    open(os.path.join(OUT, "SUMMARY.md"), "w").write("\n".join(lines) + "\n")
    print("\n".join(lines[:24]))


def main():
    ap = argparse.ArgumentParser()
    sub = ap.add_subparsers(dest="cmd", required=True)
    g = sub.add_parser("gen"); g.add_argument("--per-file", type=int, default=40)
    t = sub.add_parser("tests"); t.add_argument("--jobs", type=int, default=12)
    c = sub.add_parser("checks"); c.add_argument("--jobs", type=int, default=4); c.add_argument("--nproc", type=int, default=4); c.add_argument("--only", default=None); c.add_argument("--sample", type=int, default=0)
    sub.add_parser("report")
    a = ap.parse_args()
    {"gen": cmd_gen, "tests": cmd_tests, "checks": cmd_checks, "report": cmd_report}[a.cmd](a)


if __name__ == "__main__":
    main()
