#!/bin/bash
# Re-validate every recorded seed against the current /repo HEAD (patch applies, tests green, demo fails/passes, check detects).
cd /verif
for d in seeded/*/; do
  id=$(basename "$d"); prop=${id%-*}
  checks=$(python3 -c "import json;m=json.load(open('$d/meta.json'));print(','.join(m.get('detected_by') or [m['property']]))" 2>/dev/null || echo $prop)
  python3 tools/seedtest.py "$d" "$id" "$prop" --checks "$checks" 2>&1 | grep '^{' | cut -c1-260
done
