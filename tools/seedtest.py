#!/usr/bin/env python3
"""tools/seedtest.py <src-dir> <seed-id> <PROP> [--checks C01,C02] [--tier quick] [--needs "..."]

Confirms a seeded property-breaking change independently and records it under /verif/seeded/<seed-id>/:
  * patch.diff applies to a fresh scratch worktree of /repo HEAD (never to /repo itself)
  * the repository's own suite still has 701 passes and no new failures there
  * demo.py exits 0 on the clean tree and 1 on the changed tree
  * runs the named checks against the changed tree (VERIF_REPO) and records which report a VIOLATION
"""
import argparse
import json
import os
import shutil
import subprocess
import sys
import tempfile

ROOT = os.path.dirname(os.path.dirname(os.path.abspath(__file__)))
PY = "/venv/bin/python"


def sh(cmd, **kw):
    return subprocess.run(cmd, shell=isinstance(cmd, str), capture_output=True, text=True, **kw)


def main():
    ap = argparse.ArgumentParser()
    ap.add_argument("src")
    ap.add_argument("seed_id")
    ap.add_argument("prop")
    ap.add_argument("--checks", default=None)
    ap.add_argument("--tier", default="quick")
    ap.add_argument("--needs", default="")
    ap.add_argument("--skip-tests", action="store_true")
    a = ap.parse_args()
    checks = (a.checks or a.prop).split(",")
    dst = os.path.join(ROOT, "seeded", a.seed_id)
    os.makedirs(dst, exist_ok=True)
    if os.path.abspath(a.src) != os.path.abspath(dst):
        for f in ("patch.diff", "demo.py", "notes.md"):
            if os.path.exists(os.path.join(a.src, f)):
                shutil.copy(os.path.join(a.src, f), os.path.join(dst, f))
    patch = os.path.join(dst, "patch.diff")
    wt = tempfile.mkdtemp(prefix="seedwt.", dir="/tmp")
    os.rmdir(wt)
    meta = {"seed_id": a.seed_id, "property": a.prop, "needs": a.needs, "ran": []}
    if a.skip_tests and os.path.exists(os.path.join(dst, "meta.json")):
        # a re-run of the checks only: the recorded suite result (same patch, same HEAD) stays on record
        try:
            old = json.load(open(os.path.join(dst, "meta.json")))
            for k in ("tests_tail", "tests_green"):
                if old.get(k) is not None:
                    meta[k] = old[k]
        except Exception:  # noqa
            pass
    try:
        r = sh(["git", "-C", "/repo", "worktree", "add", "--detach", "-f", wt, "HEAD"])
        assert r.returncode == 0, r.stderr
        meta["repo_head"] = sh(["git", "-C", "/repo", "rev-parse", "--short", "HEAD"]).stdout.strip()
        env = dict(os.environ, PYTHONPATH=os.path.join(wt, "src"), PYTHONDONTWRITEBYTECODE="1")
        demo = os.path.join(dst, "demo.py")
        if os.path.exists(demo):
            r = sh([PY, demo], env=env, cwd="/tmp")
            meta["demo_clean_exit"] = r.returncode
        r = sh(["git", "-C", wt, "apply", "--3way", patch])
        if r.returncode != 0:
            r = sh(["git", "-C", wt, "apply", patch])
        meta["patch_applies"] = r.returncode == 0
        if r.returncode != 0:
            meta["apply_error"] = r.stderr[-500:]
            print("PATCH DOES NOT APPLY", r.stderr[-300:])
        else:
            sh(["git", "-C", wt, "reset", "-q"])
            if not a.skip_tests:
                r = sh(f"cd {wt} && {PY} -m pytest -q -p no:cacheprovider --timeout=900 --continue-on-collection-errors 2>&1 | tail -1")
                meta["tests_tail"] = r.stdout.strip()
                meta["tests_green"] = "701 passed" in r.stdout and "12 failed" in r.stdout
            if os.path.exists(demo):
                r = sh([PY, demo], env=env, cwd="/tmp")
                meta["demo_changed_exit"] = r.returncode
                meta["demo_changed_tail"] = (r.stdout + r.stderr)[-400:]
            for c in checks:
                env2 = dict(os.environ, VERIF_REPO=wt)
                r = sh([os.path.join(ROOT, "check"), c, "--tier", a.tier], env=env2)
                viol = [l for l in r.stdout.splitlines() if l.startswith("VIOLATION")]
                kinds = [l.strip()[:300] for l in r.stdout.splitlines() if l.startswith("  kind=")]
                meta["ran"].append({"check": c, "tier": a.tier, "exit": r.returncode, "violations_reported": len(viol),
                                    "first_kinds": kinds[:3], "summary": r.stdout.strip().splitlines()[-1:] if r.stdout.strip() else r.stderr[-300:]})
        meta["detected_by"] = [x["check"] for x in meta["ran"] if x["exit"] == 1]
    finally:
        sh(["git", "-C", "/repo", "worktree", "remove", "--force", wt])
        shutil.rmtree(wt, ignore_errors=True)
    with open(os.path.join(dst, "meta.json"), "w") as f:
        json.dump(meta, f, indent=1)
    print(json.dumps({k: meta.get(k) for k in ("seed_id", "patch_applies", "tests_tail", "demo_clean_exit", "demo_changed_exit", "detected_by")}))
    for x in meta["ran"]:
        print("  ", x["check"], "exit", x["exit"], x["first_kinds"][:1], x["summary"])


if __name__ == "__main__":
    main()
