#!/bin/sh
# Offline setup: nothing to build (pure Python + node). Creates output dirs and runs a 2-second self-test.
set -e
cd "$(dirname "$0")"
mkdir -p evidence replays
/venv/bin/python -B -c "
import sys; sys.path.insert(0,'.')
from mc.core import harness as H
t=H.import_tally(); print('tally from', t.__file__)
"
node --version >/dev/null
echo setup-ok
