"""./check <ID> [--tier quick|thorough] [--replay file]   (see mc/core/harness.py for the check API)

exit 0  property held on everything explored (KNOWN-FINDING lines possible)
exit 1  at least one unlisted violation, each confirmed by replay in a fresh process
exit 2  harness error (never a verdict)
"""
from __future__ import annotations

import argparse
import importlib
import json
import os
import subprocess
import sys
import time

from mc.core import harness as H


def _module_for(prop):
    return f"mc.checks.{prop.lower()}"


def _write_evidence(mod, tier, seed, agg, wall, n_unlisted, extra_cov=None):
    level = mod.LEVEL
    samples = agg["samples"][:]
    # seed only selects which samples are shown
    if samples:
        k = seed % len(samples)
        samples = (samples[k:] + samples[:k])[:4]
    cov = {
        "evaluations": agg["evals"],
        "distinct_nontrivial": agg["nontrivial"],
        "rule": mod.RULE,
        "samples": samples,
        "exhaustive": bool(agg.get("exhaustive", True)),
        "cases": agg["cases"],
        "distinct_outcomes": len(agg["outcomes"]),
        "outcomes_top": dict(sorted(agg["outcomes"].items(), key=lambda kv: -kv[1])[:25]),
        "violations_by_kind": dict(agg["viol_kinds"]),
        "known_findings_hit": {k[6:]: v for k, v in agg["extra"].items() if k.startswith("known:")},
        "counters": {k: v for k, v in agg["extra"].items() if not k.startswith("known:")},
    }
    if hasattr(mod, "bounds"):
        cov["bounds"] = mod.bounds(tier)
    if level == "model_checking":
        cov["states"] = agg["states"]
        cov["transitions"] = agg["transitions"]
        cov["traces_validated_against_impl"] = agg.get("traces_validated", agg["transitions"])
        cov["max_depth"] = agg["depth"]
    if extra_cov:
        cov.update(extra_cov)
    vac = []
    if len(agg["outcomes"]) <= 1:
        vac.append("only one distinct outcome observed")
    cov["vacuity_warnings"] = vac
    ev = {
        "property_id": mod.PROPERTY,
        "tier": tier,
        "seed": seed,
        "level": level,
        "coverage": cov,
        "assumptions": list(getattr(mod, "ASSUMPTIONS", [])),
        "wall_s": round(wall, 3),
        "violations": n_unlisted,
    }
    # evidence under /verif/evidence always describes /repo itself; runs against a scratch tree (VERIF_REPO, used to
    # test the checks against seeded changes) write theirs elsewhere
    evdir = os.environ.get("VERIF_EVIDENCE_DIR") or (os.path.join(H.VERIF_ROOT, "evidence") if os.path.realpath(H.REPO) == "/repo"
                                                      else os.path.join("/tmp", "verif-evidence-scratch"))
    os.makedirs(evdir, exist_ok=True)
    path = os.path.join(evdir, f"{mod.PROPERTY}.json")
    tmp = path + ".tmp"
    with open(tmp, "w", encoding="utf-8") as f:
        f.write(H.jdump(ev, indent=1))
    os.replace(tmp, path)
    return path


def _replay_case(mod, rec):
    """Re-execute one recorded case on the current tree; return the violations with the same kind."""
    H.import_tally()
    if hasattr(mod, "setup"):
        mod.setup(rec.get("tier", "quick"))
    H.reset_state()
    res = mod.check_case(rec["case"])
    return [v for v in res.get("violations", ()) if v.get("kind") == rec["kind"]]


def cmd_replay(mod, path):
    with open(path, encoding="utf-8") as f:
        rec = json.load(f)
    hits = _replay_case(mod, rec)
    if hits:
        print(f"VIOLATION property={mod.PROPERTY} replay={path}")
        print("  kind:", rec["kind"])
        print("  detail:", H.jdump(hits[0].get("detail"))[:1500])
        return 1
    print(f"replay {path}: no violation on the current tree")
    return 0


def main(argv=None):
    ap = argparse.ArgumentParser()
    ap.add_argument("prop")
    ap.add_argument("--tier", default=os.environ.get("VERIF_TIER", "quick"), choices=["quick", "thorough"])
    ap.add_argument("--replay")
    args = ap.parse_args(argv)
    prop = args.prop.upper()
    seed = int(os.environ.get("VERIF_SEED", "0") or 0)
    try:
        H.import_tally()
        mod = importlib.import_module(_module_for(prop))
    except Exception as e:  # noqa
        print(f"HARNESS-ERROR property={prop} import failed: {type(e).__name__}: {e}", file=sys.stderr)
        import traceback
        traceback.print_exc()
        return 2
    if args.replay:
        try:
            return cmd_replay(mod, args.replay)
        except Exception as e:  # noqa
            print(f"HARNESS-ERROR property={prop} replay failed: {type(e).__name__}: {e}", file=sys.stderr)
            return 2

    t0 = time.time()
    try:
        if hasattr(mod, "setup"):
            mod.setup(args.tier)
        # determinism self-check: the first cases, run twice from a reset state, must agree
        if hasattr(mod, "gen_cases"):
            n = 0
            for case in mod.gen_cases(args.tier):
                H.reset_state()
                a = H.jdump(mod.check_case(case), sort_keys=True)
                H.reset_state()
                b = H.jdump(mod.check_case(case), sort_keys=True)
                if a != b:
                    raise H.HarnessError("nondeterministic check_case on " + H.jdump(case)[:300])
                n += 1
                if n >= int(getattr(mod, "DETERMINISM_CASES", 3)):
                    break
        if hasattr(mod, "run_custom"):
            agg = mod.run_custom(args.tier, seed)
        else:
            agg = H.run_sharded(mod.__name__, args.tier, seed)
        extra_cov = mod.finalize(agg, args.tier) if hasattr(mod, "finalize") else None
    except H.HarnessError as e:
        print(f"HARNESS-ERROR property={prop}: {e}", file=sys.stderr)
        return 2
    except Exception as e:  # noqa
        import traceback
        traceback.print_exc()
        print(f"HARNESS-ERROR property={prop}: {type(e).__name__}: {e}", file=sys.stderr)
        return 2

    # ---- triage violations: known findings vs unlisted
    known = H.load_known_findings(prop)
    known_hits = {}
    unlisted = []
    for rec in sorted(agg["violations"], key=lambda r: (len(H.jdump(r["case"])), H.jdump(r["case"]))):
        kf = next((e for e in known if H.finding_matches(e, rec)), None)
        if kf:
            known_hits.setdefault(kf["id"], (kf, rec))
        else:
            unlisted.append(rec)
    n_unlisted_total = agg["viol_count"] - sum(v for k, v in agg["extra"].items() if k.startswith("known:"))

    # ---- confirm unlisted violations by replay in a fresh process (one per kind, smallest first)
    reported = []
    seen_kinds = {}
    seen_cases = set()
    unconfirmed = []
    os.makedirs(os.path.join(H.VERIF_ROOT, "replays", prop), exist_ok=True)
    for rec in unlisted:
        if seen_kinds.get(rec["kind"], 0) >= 2 or len(reported) >= 8:
            continue
        ck = (rec["kind"], H.jhash(rec["case"]))
        if ck in seen_cases:
            continue
        seen_cases.add(ck)
        seen_kinds[rec["kind"]] = seen_kinds.get(rec["kind"], 0) + 1
        body = {"property": prop, "tier": args.tier, "seed": seed, "kind": rec["kind"],
                "case": rec["case"], "detail": rec["detail"]}
        path = os.path.join(H.VERIF_ROOT, "replays", prop, H.jhash(body["case"]) + "-" + H.jhash(rec["kind"])[:6] + ".json")
        with open(path, "w", encoding="utf-8") as f:
            f.write(H.jdump(body, indent=1))
        env = dict(os.environ)
        r = subprocess.run([os.path.join(H.VERIF_ROOT, "check"), prop, "--replay", path],
                           capture_output=True, text=True, env=env)
        if r.returncode == 1:
            reported.append((path, rec))
        elif r.returncode == 0:
            # seen inside the exploration but not in isolation from a fresh process: never reported as a violation
            unconfirmed.append(path)
            seen_kinds[rec["kind"]] -= 1
            if len(unconfirmed) > 12:
                break
        else:
            print(f"HARNESS-ERROR property={prop}: replay crashed for {path}\n{r.stderr[-2000:]}", file=sys.stderr)
            return 2

    wall = time.time() - t0
    if unlisted and not reported:
        # violations were observed but none reproduced when replayed alone: the check (or the code) depends on something the
        # replay does not capture - a harness error, never a verdict
        _write_evidence(mod, args.tier, seed, agg, wall, max(n_unlisted_total, 0), extra_cov)
        print(f"HARNESS-ERROR property={prop}: {len(unlisted)} violation(s) observed, none reproduced on replay, e.g. {unconfirmed[:2]}", file=sys.stderr)
        return 2
    _write_evidence(mod, args.tier, seed, agg, wall, max(n_unlisted_total, 0), extra_cov)

    for kid, (kf, rec) in sorted(known_hits.items()):
        n = agg["extra"].get("known:" + kid, 1)
        print(f"KNOWN-FINDING: property={prop} {kid}: {kf.get('what', '')} [{n} case(s) this run]")
    for path, rec in reported:
        print(f"VIOLATION property={prop} replay={path}")
        print(f"  kind={rec['kind']} detail={H.jdump(rec['detail'])[:600]}")
    lvl = mod.LEVEL
    print(f"{prop} tier={args.tier} level={lvl} cases={agg['cases']} evaluations={agg['evals']} "
          f"nontrivial={agg['nontrivial']} outcomes={len(agg['outcomes'])} "
          + (f"states={agg['states']} transitions={agg['transitions']} depth={agg['depth']} " if lvl == 'model_checking' else "")
          + f"violations={max(n_unlisted_total, 0)} known={len(known_hits)} wall={wall:.1f}s")
    return 1 if reported else 0


if __name__ == "__main__":
    sys.exit(main())
