"""Run `tally <argv>` in a forked child of the warmed harness process (fresh caches, own cwd, stdin=/dev/null,
stdout/stderr captured, non-tty), or run an arbitrary callable in such a child."""
import os
import pickle
import sys
import tempfile
import traceback

from mc.core import harness as H


def _child_setup(cwd, out_path, err_path, env):
    os.chdir(cwd)
    fd_in = os.open(os.devnull, os.O_RDONLY)
    os.dup2(fd_in, 0)
    fo = os.open(out_path, os.O_WRONLY | os.O_CREAT | os.O_TRUNC, 0o600)
    fe = os.open(err_path, os.O_WRONLY | os.O_CREAT | os.O_TRUNC, 0o600)
    os.dup2(fo, 1)
    os.dup2(fe, 2)
    sys.stdin = open(0, "r", closefd=False)
    sys.stdout = open(1, "w", encoding="utf-8", closefd=False)
    sys.stderr = open(2, "w", encoding="utf-8", closefd=False)
    for k, v in (env or {}).items():
        if v is None:
            os.environ.pop(k, None)
        else:
            os.environ[k] = v
    os.environ.pop("TALLY_CONFIG", None) if "TALLY_CONFIG" not in (env or {}) else None


def run_cli(argv, cwd, env=None, pre=None, post=None, call=None):
    """Fork; in the child run tally.cli.main() with sys.argv = ['tally'] + argv. Returns exit/stdout/stderr.
    `pre` is an optional callable run in the child before main (used to install fault injectors)."""
    H.import_tally()
    tmpd = tempfile.mkdtemp(prefix="tallyproc-", dir=H.TMP)
    out_path, err_path = os.path.join(tmpd, "out"), os.path.join(tmpd, "err")
    sys.stdout.flush()
    sys.stderr.flush()
    pid = os.fork()
    if pid == 0:
        code = 0
        try:
            _child_setup(cwd, out_path, err_path, env)
            H.reset_state()
            import tally.cli as cli
            try:
                cli._deprecated_parser_warnings.clear()
            except Exception:
                pass
            sys.argv = ["tally"] + list(argv)
            if pre:
                pre()
            try:
                if call is not None:
                    call()
                else:
                    cli.main()
            except SystemExit as e:
                c = e.code
                if c is None:
                    code = 0
                elif isinstance(c, int):
                    code = c
                else:
                    print(c, file=sys.stderr)
                    code = 1
        except BaseException as e:  # noqa
            try:
                traceback.print_exc()
                print(f"UNCAUGHT {type(e).__name__}: {e}", file=sys.stderr)
            except Exception:
                pass
            code = 70 if not getattr(e, "verif_crash", False) else 99
        finally:
            try:
                if post:
                    post()
            except BaseException:  # noqa
                pass
            try:
                sys.stdout.flush()
                sys.stderr.flush()
            except Exception:
                pass
            os._exit(code & 0xFF)
    _, status = os.waitpid(pid, 0)
    code = os.waitstatus_to_exitcode(status)
    with open(out_path, encoding="utf-8", errors="replace") as f:
        out = f.read()
    with open(err_path, encoding="utf-8", errors="replace") as f:
        err = f.read()
    for p in (out_path, err_path):
        try:
            os.unlink(p)
        except OSError:
            pass
    try:
        os.rmdir(tmpd)
    except OSError:
        pass
    return {"exit": code, "stdout": out, "stderr": err}


def run_fresh(fn, *args, cwd=None):
    """Run fn(*args) in a forked child with reset process state; returns its (picklable) result."""
    H.import_tally()
    r, w = os.pipe()
    sys.stdout.flush()
    pid = os.fork()
    if pid == 0:
        os.close(r)
        try:
            if cwd:
                os.chdir(cwd)
            H.reset_state()
            res = ("ok", fn(*args))
        except BaseException as e:  # noqa
            res = ("exc", f"{type(e).__name__}: {e}\n{traceback.format_exc()}")
        try:
            with os.fdopen(w, "wb") as f:
                pickle.dump(res, f)
        finally:
            os._exit(0)
    os.close(w)
    with os.fdopen(r, "rb") as f:
        data = f.read()
    os.waitpid(pid, 0)
    kind, val = pickle.loads(data)
    if kind == "exc":
        raise H.HarnessError("fresh child failed: " + val)
    return val


def json_document(text, last=False):
    """The JSON document a command printed on stdout, whatever progress lines precede or follow it (tally prints its banner and
    per-source lines in front of `--format json` output; where they go is not part of any property).  Candidates are position 0 and
    every line that starts with '{' or '['; the first (or, with last=True, the last) one that decodes wins."""
    import json as _json
    import re as _re
    dec = _json.JSONDecoder()
    starts = ([0] if text[:1] in ("{", "[") else []) + [m.end() for m in _re.finditer(r"\n(?=[{\[])", text)]
    found = None
    for i in starts:
        try:
            found = dec.raw_decode(text[i:])[0]
        except ValueError:
            continue
        if not last:
            return found
    if found is None:
        raise ValueError("no JSON document in the output")
    return found
