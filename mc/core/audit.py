"""sys.addaudithook monitor and value-kind walker for the confinement check (C03)."""
import datetime as dt
import re
import sys
import types

_state = {"armed": False, "events": []}
_installed = False


def _hook(event, args):
    if _state["armed"]:
        try:
            if event == "compile":
                src = args[0]
                if isinstance(src, bytes):
                    src = src.decode("utf-8", "replace")
                _state["events"].append((event, str(src)[:400]))
            else:
                _state["events"].append((event, repr(args)[:120]))
        except Exception:  # noqa
            _state["events"].append((event, "?"))


def install():
    global _installed
    if not _installed:
        sys.addaudithook(_hook)
        _installed = True


class watch:
    """with watch() as w: ...   -> w.events = audit events raised inside the block."""

    def __enter__(self):
        install()
        _state["events"] = []
        _state["armed"] = True
        self.events = _state["events"]
        return self

    def __exit__(self, *a):
        _state["armed"] = False
        self.events = list(_state["events"])
        return False


INERT = (bool, int, float, str, type(None), dt.date, dt.datetime, bytes, complex, type(Ellipsis))
LEAK_RX = re.compile(r"<class |<function |<built-in |<bound method |<module |<code object| object at 0x|<frame |<slot wrapper|<method |<generator object|<attribute |<member ")


def leaks(value, depth=0, consume_generators=True):
    """Return a list of reasons why `value` is not plain data."""
    out = []
    if depth > 6:
        return out
    if isinstance(value, str):
        if LEAK_RX.search(value):
            out.append(f"string holds the repr of an interpreter object: {value[:120]!r}")
        return out
    if isinstance(value, INERT):
        return out
    if isinstance(value, (list, tuple, set, frozenset)):
        for x in value:
            out += leaks(x, depth + 1, consume_generators)
        return out
    if isinstance(value, dict):
        for k, v in value.items():
            out += leaks(k, depth + 1, consume_generators) + leaks(v, depth + 1, consume_generators)
        return out
    if isinstance(value, types.GeneratorType):
        if consume_generators:
            try:
                for _ in range(3):
                    out += leaks(next(value), depth + 1, consume_generators)
            except StopIteration:
                pass
            except Exception:  # noqa  (evaluation errors inside a lazily evaluated generator are fine)
                pass
        return out
    out.append(f"value of type {type(value).__module__}.{type(value).__qualname__}: {repr(value)[:100]}")
    return out
