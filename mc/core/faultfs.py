"""File-system effect interposer for crash / fault enumeration (C15).

Installed inside the forked child that runs the code under test.  It patches, from the harness side,
builtins.open / io.open (write, append, exclusive-create modes), os.rename, os.replace, os.mkdir,
os.remove/unlink, os.rmdir.  shutil.move / os.makedirs / Path.write_text reach these.  Every effect gets
an index k in program order:

    open(path, 'w'/'x')   -> effect "create"   (file created / truncated to empty at once)
    close of that handle  -> effect "flush"    (buffered data reaches the file; can be torn)
    open(path, 'a') close -> effect "append"   (buffered data is appended; can be torn)
    os.rename/replace     -> effect "rename"
    os.mkdir              -> effect "mkdir"
    os.remove/rmdir       -> effect "remove"

Plan: {"crash_after": k, "tear": None|"half"|"none"} kills the run right after effect k
      (tear applies to a flush/append effect k: only half / nothing of the data lands);
      {"oserror_at": k} raises OSError(EIO) INSTEAD of effect k and lets tally's own handlers run;
      {"oserror_at": k, "whole_move": True} (k = a rename issued by shutil.move): the move as a whole fails - the rename
      raises and so does every step of shutil.move's copy fallback, so the caller sees one failed "move" step.
After a crash every later effect is a no-op (so unwinding `with` blocks cannot write anything).
"""
import builtins
import errno
import io
import os


class Crash(BaseException):
    """Simulated interruption: no handler in tally catches BaseException subclasses other than KeyboardInterrupt."""
    verif_crash = True


class FaultFS:
    def __init__(self, root, plan=None):
        self.root = os.path.realpath(root)
        self.plan = plan or {}
        self.log = []
        self.crashed = False
        self._real_open = builtins.open
        self._real = {n: getattr(os, n) for n in ("rename", "replace", "mkdir", "remove", "unlink", "rmdir")}
        import shutil
        self._real_move = shutil.move
        self._move_depth = 0
        self._fail_move = False

    # -------------------------------------------------------------------------------- bookkeeping
    def _inside(self, path):
        try:
            p = os.path.realpath(os.fspath(path))
        except TypeError:
            return False
        return p == self.root or p.startswith(self.root + os.sep)

    def _rel(self, path):
        return os.path.relpath(os.path.realpath(os.fspath(path)), self.root)

    def _effect(self, kind, path, perform, data=None, src=None):
        """Register effect k and perform it according to the plan."""
        if self.crashed:
            return None
        k = len(self.log)
        self.log.append({"k": k, "kind": kind, "path": self._rel(path)})
        if src is not None:
            self.log[-1]["src"] = self._rel(src)
        if self._move_depth > 0:
            self.log[-1]["in_move"] = True
            if self._fail_move:
                self.log[-1]["injected"] = "OSError (move fallback)"
                raise OSError(errno.EIO, "injected I/O error", os.fspath(path))
        if self.plan.get("oserror_at") == k:
            self.log[-1]["injected"] = "OSError"
            if self.plan.get("whole_move") and self._move_depth > 0:
                self._fail_move = True
            raise OSError(errno.EIO, "injected I/O error", os.fspath(path))
        try:
            if self.plan.get("crash_after") == k:
                tear = self.plan.get("tear")
                if kind in ("flush", "append") and tear in ("half", "none"):
                    if tear == "half" and data:
                        perform(data[: len(data) // 2])
                    self.log[-1]["torn"] = tear
                else:
                    perform(data) if data is not None else perform()
                self.crashed = True
                raise Crash(f"crash after effect {k} ({kind} {self._rel(path)})")
            return perform(data) if data is not None else perform()
        except OSError as e:
            # the real system call failed by itself (e.g. mkdir of an existing directory): not a completed effect
            self.log[-1]["failed"] = type(e).__name__
            raise

    # -------------------------------------------------------------------------------- open
    def _open(self, file, mode="r", *args, **kwargs):
        if isinstance(file, int) or not any(c in mode for c in "wax+") or not self._inside(file):
            return self._real_open(file, mode, *args, **kwargs)
        fs = self
        path = os.fspath(file)
        binary = "b" in mode
        encoding = kwargs.get("encoding") or "utf-8"
        newline = kwargs.get("newline")
        appending = "a" in mode

        if not appending:
            def create():
                with fs._real_open(path, "wb"):
                    pass
            if fs.crashed:
                pass
            else:
                if "x" in mode and os.path.exists(path):
                    raise FileExistsError(errno.EEXIST, "File exists", path)
                fs._effect("create", path, create)

        class Handle:
            def __init__(self):
                self.buf = []
                self.closed = False
                self.name = path
                self.mode = mode
                self.encoding = encoding

            def write(self, s):
                if self.closed:
                    raise ValueError("I/O operation on closed file.")
                if binary:
                    b = bytes(s)
                else:
                    if not isinstance(s, str):
                        raise TypeError("write() argument must be str")
                    if newline in (None,) and os.linesep != "\n":
                        s = s.replace("\n", os.linesep)
                    b = s.encode(encoding)
                self.buf.append(b)
                return len(s)

            def writelines(self, lines):
                for l in lines:
                    self.write(l)

            def flush(self):
                pass

            def close(self):
                if self.closed:
                    return
                self.closed = True
                data = b"".join(self.buf)

                def land(d):
                    with fs._real_open(path, "ab") as f:
                        f.write(d)
                fs._effect("append" if appending else "flush", path, land, data)

            def __enter__(self):
                return self

            def __exit__(self, *a):
                self.close()
                return False

            def fileno(self):
                raise io.UnsupportedOperation("fileno")

            def writable(self):
                return True

            def readable(self):
                return False

            def seekable(self):
                return False

            def __del__(self):
                pass

        return Handle()

    # -------------------------------------------------------------------------------- os-level effects
    def _rename(self, name):
        real = self._real[name]

        def patched(src, dst, *a, **kw):
            if not (self._inside(src) or self._inside(dst)):
                return real(src, dst, *a, **kw)
            return self._effect("rename", dst, lambda: real(src, dst, *a, **kw), src=src)
        return patched

    def _one(self, name, kind):
        real = self._real[name]

        def patched(path, *a, **kw):
            if not self._inside(path):
                return real(path, *a, **kw)
            return self._effect(kind, path, lambda: real(path, *a, **kw))
        return patched

    def _move(self, src, dst, *a, **kw):
        self._move_depth += 1
        try:
            return self._real_move(src, dst, *a, **kw)
        finally:
            self._move_depth -= 1
            if self._move_depth == 0:
                self._fail_move = False

    def install(self):
        import shutil
        shutil.move = self._move
        builtins.open = self._open
        io.open = self._open
        os.rename = self._rename("rename")
        os.replace = self._rename("replace")
        os.mkdir = self._one("mkdir", "mkdir")
        os.remove = self._one("remove", "remove")
        os.unlink = self._one("unlink", "remove")
        os.rmdir = self._one("rmdir", "remove")
        return self

    def uninstall(self):
        import shutil
        shutil.move = self._real_move
        builtins.open = self._real_open
        io.open = self._real_open
        for n, f in self._real.items():
            setattr(os, n, f)
