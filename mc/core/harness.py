"""Shared harness: imports the real code from the repo working tree, owns nondeterminism,
shards exhaustive enumerations over cores, confirms violations by replay, writes evidence.

A check module (mc/checks/cNN.py) provides

    PROPERTY = "C06"
    LEVEL    = "exploration" | "model_checking" | "fault_enumeration"
    RULE     = "how cases are enumerated / what makes one non-trivial"
    ASSUMPTIONS = [...]
    def gen_cases(tier):            # deterministic, duplicate-free iterator of JSON-able cases
    def check_case(case) -> dict    # {"evals": n, "nontrivial": k, "outcomes": [...],
                                    #  "violations": [{"kind":..., "detail":...}, ...],
                                    #  optionally "states"/"transitions"/"depth" for model checking}
    optional: def setup(tier), def bounds(tier) -> dict, def finalize(agg) -> dict (extra coverage keys)

Every case is executed on the real implementation; nothing is sampled.  VERIF_SEED only rotates
which worker gets which shard and which samples are printed.
"""
from __future__ import annotations

import hashlib
import json
import os
import re
import sys
import time
import traceback
import multiprocessing as mp
from collections import Counter

VERIF_ROOT = os.environ.get("VERIF_ROOT", "/verif")
REPO = os.environ.get("VERIF_REPO", "/repo")
SRC = os.path.join(REPO, "src")
NPROC = int(os.environ.get("VERIF_NPROC", str(min(16, os.cpu_count() or 1))))
# every scratch file of a run lives under one directory that the ./check launcher creates and removes (forked workers leave via os._exit, so
# per-process clean-up handlers never run); without the launcher: tmpfs if there is one
TMP = os.environ.get("VERIF_TMP") or ("/dev/shm" if os.path.isdir("/dev/shm") and os.access("/dev/shm", os.W_OK) else None)
FIXED_TODAY = (2025, 6, 15)


class HarnessError(Exception):
    """The check itself is broken (never reported as a violation)."""


_tally = None


def import_tally():
    """Import tally from the repo working tree and own its global nondeterminism."""
    global _tally
    if _tally is not None:
        return _tally
    if SRC not in sys.path:
        sys.path.insert(0, SRC)
    os.environ["NO_COLOR"] = "1"          # colour codes are decided at import time from isatty()
    os.environ.pop("FORCE_COLOR", None)
    os.environ.pop("TALLY_CONFIG", None)
    for name in [m for m in sys.modules if m == "tally" or m.startswith("tally.")]:
        del sys.modules[name]
    import tally  # noqa
    real = os.path.realpath(tally.__file__)
    if not real.startswith(os.path.realpath(SRC) + os.sep):
        raise HarnessError(f"tally imported from {real}, expected under {SRC}")
    # pre-import lazily imported modules so they never show up as effects of evaluation
    import difflib, statistics, warnings, csv, shutil  # noqa
    import tally.expr_parser, tally.merchant_engine, tally.merchant_utils  # noqa
    import tally.modifier_parser as mp_mod
    import datetime as _dt

    class _FixedDate(_dt.date):
        @classmethod
        def today(cls):
            return cls(*FIXED_TODAY)

    # date.today() is only used for [date:lastNdays]; fix the clock
    if getattr(mp_mod, "date", None) is _dt.date:
        mp_mod.date = _FixedDate
    _tally = tally
    return tally


def reset_state():
    """Return the process-global caches to their import-time state."""
    import tally.expr_parser as ep
    import tally.merchant_utils as mu
    import tally.merchant_engine as me
    for mod in (ep, mu, me):
        for nm, c in list(vars(mod).items()):
            if "cache" not in nm.lower():
                continue
            # module-level caches whatever they are called: dict-like ones are emptied, lru_cache-like ones cleared
            if isinstance(c, (dict, set, list)):
                c.clear()
            elif hasattr(c, "cache_clear"):
                try:
                    c.cache_clear()
                except Exception:
                    pass
    try:
        mu.clear_engine_cache()
    except Exception:
        pass


def jhash(obj) -> str:
    return hashlib.sha1(json.dumps(obj, sort_keys=True, default=str).encode()).hexdigest()[:16]


def jdefault(o):
    import datetime as _dt
    if isinstance(o, (_dt.date, _dt.datetime)):
        return o.isoformat()
    if isinstance(o, (set, frozenset)):
        return sorted(o, key=str)
    if isinstance(o, tuple):
        return list(o)
    if isinstance(o, bytes):
        return o.decode("utf-8", "replace")
    return repr(o)


def jdump(obj, **kw):
    return json.dumps(obj, default=jdefault, ensure_ascii=False, **kw)


# --------------------------------------------------------------------------------------
# known findings
# --------------------------------------------------------------------------------------

def load_known_findings(prop):
    path = os.path.join(VERIF_ROOT, "known_findings.json")
    if not os.path.exists(path):
        return []
    with open(path, encoding="utf-8") as f:
        data = json.load(f)
    return [e for e in data.get("findings", []) if e.get("property") == prop and e.get("status") == "open"]


def _lookup(obj, dotted):
    cur = obj
    for part in dotted.split("."):
        if isinstance(cur, dict) and part in cur:
            cur = cur[part]
        elif isinstance(cur, list) and part.isdigit() and int(part) < len(cur):
            cur = cur[int(part)]
        else:
            return None
    return cur


def finding_matches(entry, violation) -> bool:
    """entry['match'] = {dotted path into the violation record: regex that must re.search its str()}."""
    m = entry.get("match") or {}
    if not m:
        return False
    for path, rx in m.items():
        v = _lookup(violation, path)
        if v is None:
            return False
        s = v if isinstance(v, str) else jdump(v)
        if not re.search(rx, s, re.S):
            return False
    return True


# --------------------------------------------------------------------------------------
# sharded execution
# --------------------------------------------------------------------------------------

_MAX_VIOL_PER_KIND = 6


def _new_agg():
    return {"cases": 0, "evals": 0, "nontrivial": 0, "outcomes": Counter(), "violations": [],
            "viol_count": 0, "viol_kinds": Counter(), "states": 0, "transitions": 0, "depth": 0,
            "samples": [], "errors": [], "extra": Counter()}


def _merge_result(agg, case, res, keep_samples):
    agg["cases"] += 1
    agg["evals"] += int(res.get("evals", 1))
    agg["nontrivial"] += int(res.get("nontrivial", 0))
    for o in res.get("outcomes", ()):
        agg["outcomes"][o if isinstance(o, str) else jdump(o)] += 1
    agg["states"] += int(res.get("states", 0))
    agg["transitions"] += int(res.get("transitions", 0))
    agg["depth"] = max(agg["depth"], int(res.get("depth", 0)))
    for k, v in (res.get("extra") or {}).items():
        agg["extra"][k] += v
    for v in res.get("violations", ()):
        agg["viol_count"] += 1
        kind = v.get("kind", "?")
        agg["viol_kinds"][kind] += 1
        # known findings are matched per violation later; keep enough of each kind, shortest cases first
        rec = {"kind": kind, "detail": v.get("detail"), "case": v.get("case", case)}
        rec["_sz"] = len(jdump(rec["case"]))
        agg["violations"].append(rec)
    if keep_samples and len(agg["samples"]) < keep_samples and res.get("sample", True):
        agg["samples"].append(res.get("sample_repr", case))


def _worker(args):
    modname, tier, shard, nshards, rot = args
    try:
        import importlib
        import_tally()
        mod = importlib.import_module(modname)
        if hasattr(mod, "setup"):
            mod.setup(tier)
        agg = _new_agg()
        known = load_known_findings(mod.PROPERTY)
        kept = Counter()
        for i, case in enumerate(mod.gen_cases(tier)):
            if (i + rot) % nshards != shard:
                continue
            res = mod.check_case(case)
            viols = res.get("violations", ())
            if viols:
                # thin out: keep at most a few per (kind, known-finding id) class, smallest first
                slim = []
                for v in viols:
                    rec = {"kind": v.get("kind", "?"), "detail": v.get("detail"), "case": v.get("case", case)}
                    kf = next((e["id"] for e in known if finding_matches(e, rec)), None)
                    key = (rec["kind"], kf)
                    agg["viol_count"] += 1
                    agg["viol_kinds"][rec["kind"]] += 1
                    if kf:
                        agg["extra"]["known:" + kf] += 1
                    if kept[key] < _MAX_VIOL_PER_KIND:
                        kept[key] += 1
                        rec["known"] = kf
                        slim.append(rec)
                res = dict(res)
                res["violations"] = ()
                agg["violations"].extend(slim)
            _merge_result(agg, case, res, keep_samples=3)
        agg["outcomes"] = dict(agg["outcomes"])
        agg["viol_kinds"] = dict(agg["viol_kinds"])
        agg["extra"] = dict(agg["extra"])
        return agg
    except BaseException as e:  # noqa
        return {"fatal": f"{type(e).__name__}: {e}\n{traceback.format_exc()}"}


def run_sharded(modname, tier, seed):
    nshards = NPROC
    rot = seed % nshards if nshards else 0
    ctx = mp.get_context("fork")
    with ctx.Pool(nshards) as pool:
        parts = pool.map(_worker, [(modname, tier, s, nshards, rot) for s in range(nshards)])
    total = _new_agg()
    for p in parts:
        if "fatal" in p:
            raise HarnessError("worker failed: " + p["fatal"])
        total["cases"] += p["cases"]
        total["evals"] += p["evals"]
        total["nontrivial"] += p["nontrivial"]
        total["outcomes"].update(p["outcomes"])
        total["viol_kinds"].update(p["viol_kinds"])
        total["viol_count"] += p["viol_count"]
        total["violations"].extend(p["violations"])
        total["states"] += p["states"]
        total["transitions"] += p["transitions"]
        total["depth"] = max(total["depth"], p["depth"])
        total["samples"].extend(p["samples"])
        total["extra"].update(p["extra"])
    return total
