// Loads the WHOLE spending_report.js from the working tree into a vm context whose browser globals
// (Vue, document, window, Chart, ...) are inert Proxy stubs, then evaluates the classification
// functions on the JSON batch given on stdin. Usage: node c13_driver.js <path-to-spending_report.js>
const fs = require('fs');
const vm = require('vm');
const src = fs.readFileSync(process.argv[2], 'utf8');
function stub() {
  const f = function () { return stub(); };
  return new Proxy(f, {
    get(t, k) {
      if (k === Symbol.toPrimitive) return () => '';
      if (k === 'then') return undefined;
      if (k === Symbol.iterator) return undefined;
      return stub();
    },
    apply() { return stub(); },
    construct() { return stub(); },
    set() { return true; },
    has() { return true; },
  });
}
const sandbox = { console: { log() {}, warn() {}, error() {} }, setTimeout() {}, clearTimeout() {}, setInterval() {},
  requestAnimationFrame() {}, Vue: stub(), document: stub(), window: stub(), Chart: stub(), localStorage: stub(),
  navigator: stub(), location: stub(), history: stub(), URLSearchParams: function () { return stub(); },
  IntersectionObserver: function () { return stub(); }, ResizeObserver: function () { return stub(); },
  Math, JSON, Set, Map, Array, Object, Number, String, Boolean, Date, RegExp, Error, Symbol, Promise, parseFloat, parseInt, isNaN, isFinite, Intl };
sandbox.window = new Proxy(sandbox, { get(t, k) { return k in t ? t[k] : stub(); }, set(t, k, v) { t[k] = v; return true; } });
sandbox.globalThis = sandbox;
vm.createContext(sandbox);
vm.runInContext(src, sandbox, { filename: 'spending_report.js' });
const need = ['categorizeAmount', 'isExcludedFromSpending', 'calculateCashFlow'];
for (const n of need) if (typeof sandbox[n] !== 'function') { console.error('missing function ' + n); process.exit(3); }
const batch = JSON.parse(fs.readFileSync(0, 'utf8'));
const out = { classify: [], cash: [] };
for (const [amount, tags] of batch.classify || []) {
  // a transaction without tags reaches the browser either as a missing key (undefined) or as JSON null: both are tried
  const t = tags === null ? undefined : tags;
  let r;
  try {
    const c = sandbox.categorizeAmount(amount, t);
    r = { ok: true, c: c, ex: sandbox.isExcludedFromSpending(t) };
    if (tags === null) {
      const c2 = sandbox.categorizeAmount(amount, null);
      const ex2 = sandbox.isExcludedFromSpending(null);
      if (JSON.stringify(c2) !== JSON.stringify(c) || ex2 !== r.ex) r = { ok: false, err: 'tags null and tags undefined are classified differently: ' + JSON.stringify(c2) + ' vs ' + JSON.stringify(c) };
    }
  } catch (e) { r = { ok: false, err: String(e) }; }
  out.classify.push(r);
}
for (const [a, b, c] of batch.cash || []) out.cash.push(sandbox.calculateCashFlow(a, b, c));
// numbers: JSON.stringify prints the shortest round-trip decimal, -0 is printed as 0 (never an output here)
process.stdout.write(JSON.stringify(out));
