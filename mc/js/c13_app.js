// Runs the report the way a browser would, as far as the totals are concerned: the two inline scripts of a generated HTML report
// (data + application) are executed with a minimal stand-in for Vue's composition API, the application is "mounted" (setup() runs),
// and the totals card computed by the application (filteredViewTotals, no filter active) is printed as JSON.
// usage: node c13_app.js <report.html> [<report2.html> ...]   -> one JSON line per report
const fs = require('fs');
const noop = () => {};
function totalsOf(path) {
    const html = fs.readFileSync(path, 'utf8');
    const scripts = [];
    const re = /<script>([\s\S]*?)<\/script>/g;      // inline scripts only (no src=)
    let m;
    while ((m = re.exec(html)) !== null) scripts.push(m[1]);
    if (scripts.length < 2) return { error: 'expected the data script and the application script, got ' + scripts.length + ' inline scripts' };
    let setupResult = null;
    const Vue = {
        ref: v => ({ value: v }),
        reactive: v => v,
        computed: fn => (typeof fn === 'function' ? { get value() { return fn(); } } : { get value() { return fn.get(); }, set value(x) { fn.set(x); } }),
        watch: noop, watchEffect: noop, onMounted: noop, onUnmounted: noop, onBeforeUnmount: noop, nextTick: () => Promise.resolve(),
        defineComponent: c => c, toRef: (o, k) => ({ get value() { return o[k]; } }), toRefs: o => o, unref: r => (r && r.value !== undefined ? r.value : r),
        createApp: opts => {
            const app = { component() { return app; }, use() { return app; }, directive() { return app; }, config: { globalProperties: {} },
                          mount() { setupResult = opts.setup ? opts.setup({}, { emit: noop }) : null; return app; } };
            return app;
        },
    };
    const windowStub = { addEventListener: noop, removeEventListener: noop, location: { hash: '' }, scrollY: 0, matchMedia: () => ({ matches: false, addEventListener: noop }),
                         history: { replaceState: noop, pushState: noop }, innerWidth: 1200, innerHeight: 800, scrollTo: noop };
    const documentStub = { addEventListener: noop, removeEventListener: noop, querySelectorAll: () => [], querySelector: () => null, getElementById: () => null,
                           documentElement: { setAttribute: noop, getAttribute: () => null, classList: { add: noop, remove: noop, toggle: noop } },
                           body: { classList: { add: noop, remove: noop, toggle: noop } }, createElement: () => ({ style: {}, getContext: () => ({}) }) };
    const localStorageStub = { getItem: () => null, setItem: noop, removeItem: noop };
    try {
        const run = new Function('window', 'document', 'localStorage', 'Vue', 'Chart', 'navigator', scripts.join('\n;\n') + '\nreturn null;');
        run(windowStub, documentStub, localStorageStub, Vue, function Chart() { return { destroy: noop, update: noop }; }, { clipboard: { writeText: noop } });
    } catch (e) {
        return { error: 'running the report scripts failed: ' + (e && e.stack ? e.stack.split('\n').slice(0, 3).join(' | ') : e) };
    }
    if (!setupResult || !setupResult.filteredViewTotals) return { error: 'the application did not expose its totals card (filteredViewTotals)' };
    const t = setupResult.filteredViewTotals.value;
    const d = windowStub.spendingData || {};
    return { app: { income: t.income, spending: t.spending, credits: t.credits, investment: t.investment, transfers: t.transfers, count: t.count },
             data: { income: d.incomeTotal, spending: d.spendingTotal, credits: d.creditsTotal, investment: d.investmentTotal,
                     transfersIn: d.transfersIn, transfersOut: d.transfersOut } };
}
for (const p of process.argv.slice(2)) console.log(JSON.stringify(totalsOf(p)));
