"""Reference reading of a format string given as a list of column tokens (C18).

A token is one of: date, description, amount, -amount, +amount, location, a custom name, '_' or '*'.
Returns ("reject", reason) | ("ambiguous", reason) | ("ok", expected-dict).
"""
import re

RESERVED = {"date", "description", "amount", "location"}


def expected(tokens, date_format=None, template=None):
    pos = {}
    custom = {}
    sign = "keep"
    for i, tok in enumerate(tokens):
        name = tok.lstrip("+-").lower()
        if name in ("_", "*"):
            continue
        if name in RESERVED:
            if name in pos:
                return "reject", f"duplicate {name}"
            pos[name] = i
            if name == "amount":
                sign = {"-": "negate", "+": "abs"}.get(tok[0], "keep")
        else:
            if name in custom:
                return "reject", f"duplicate capture {name}"
            custom[name] = i
    if "date" not in pos:
        return "reject", "missing date"
    if "amount" not in pos:
        return "reject", "missing amount"
    has_desc = "description" in pos
    if not has_desc and not custom:
        return "reject", "no description and no captures"
    refs = re.findall(r"\{(\w+)\}", template) if template else []
    if any(r.lower() not in custom for r in refs):
        return "reject", "template names an uncaptured column"
    if has_desc and template:
        # {description} together with a template whose columns ARE captured: the property does not say
        return "ambiguous", "description column and a satisfiable template together"
    if not has_desc and not template:
        return "reject", "custom captures need a description template"
    exp = {
        "date_column": pos["date"],
        "amount_column": pos["amount"],
        "description_column": pos.get("description"),
        "location_column": pos.get("location"),
        "date_format": date_format or "%m/%d/%Y",
        "negate_amount": sign == "negate",
        "abs_amount": sign == "abs",
        "captures": dict(custom),
    }
    return "ok", exp
