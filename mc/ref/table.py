"""Cell tables -> statement file text, and cell tables -> expected transactions (C05, C11).

The expected transactions are computed from the CELLS, never by parsing the rendered text.
"""
import datetime as dt
import re
from decimal import Decimal, InvalidOperation


# ----------------------------------------------------------------------------------------- serialise
def quote_cell(cell, delim):
    if any(ch in cell for ch in (delim, '"', "\n", "\r")):
        return '"' + cell.replace('"', '""') + '"'
    return cell


REGEX_SEP = " | "


def regex_delimiter(ncols):
    return "regex:^" + r" \| ".join(["(.*?)"] * ncols) + "$"


def regex_delimiter_named(ncols):
    """Like regex_delimiter, with named groups (their position in the pattern is their column)."""
    return "regex:^" + r" \| ".join(["(?P<c%d>.*?)" % i for i in range(ncols)]) + "$"


def regex_delimiter_opt(ncols):
    """Like regex_delimiter, but the last column is an optional group (absent on short lines)."""
    return "regex:^" + r" \| ".join(["(.*?)"] * (ncols - 1)) + r"(?: \| (.*))?$"


def representable(cells, delimiter_kind):
    """Can this row of cells be written under the delimiter kind without ambiguity?"""
    if delimiter_kind.startswith("regex"):
        # the line is stripped before matching, so a blank first/last cell cannot be told from a missing one
        if not cells or not cells[0].strip() or not cells[-1].strip():
            return False
        return not any(("|" in c or "\n" in c or "\r" in c) for c in cells)
    return True


def render_line(cells, delimiter_kind):
    if cells is None:              # a blank line
        return ""
    if delimiter_kind.startswith("regex"):
        return REGEX_SEP.join(cells)
    d = {"comma": ",", "semicolon": ";", "tab": "\t", "tab-literal": "\t"}[delimiter_kind]
    return d.join(quote_cell(c, d) for c in cells)


def render_file(header_cells, rows, delimiter_kind):
    lines = []
    if header_cells is not None:
        lines.append(render_line(header_cells, delimiter_kind))
    for r in rows:
        lines.append(render_line(r, delimiter_kind))
    return "\n".join(lines) + "\n"


# ----------------------------------------------------------------------------------------- amounts
_NUM = re.compile(r"^[-]?(\d+(\.\d*)?|\.\d+)$")


def read_amount(cell, decimal_sep):
    """Decimal-based reading of an amount cell. Returns Decimal or None (not a finite number)."""
    s = cell.strip()
    neg = False
    if s.startswith("(") and s.endswith(")"):
        neg = True
        s = s[1:-1]
    s = re.sub(r"[$€£¥]", "", s).strip()
    if decimal_sep == ",":
        s = s.replace(".", "").replace(" ", "").replace(",", ".")
    else:
        s = s.replace(",", "")
    if not _NUM.match(s):
        return None
    try:
        v = Decimal(s)
    except InvalidOperation:
        return None
    return -v if neg else v


# ----------------------------------------------------------------------------------------- expected
def expected_txn(cells, layout, decimal_sep, sign, source_name):
    """layout: dict(date=i, datefmt=str, amount=i, description=i|None, captures={name:i}, template=str|None,
    extra={name:i}, location=i|None).  sign in keep/negate/abs.  Returns txn dict or None (row skipped)."""
    if cells is None:
        return None
    need = [layout["date"], layout["amount"]]
    if layout.get("description") is not None:
        need.append(layout["description"])
    need += list((layout.get("captures") or {}).values()) + list((layout.get("extra") or {}).values())
    if layout.get("location") is not None:
        need.append(layout["location"])
    if len(cells) <= max(need):
        return None
    date_s = cells[layout["date"]].strip()
    fields = {}
    if layout.get("description") is not None:
        desc = cells[layout["description"]].strip()
        for k, i in (layout.get("extra") or {}).items():
            fields[k] = cells[i].strip()
    else:
        for k, i in layout["captures"].items():
            fields[k] = cells[i].strip()
        desc = layout["template"].format(**fields)
    amt_s = cells[layout["amount"]].strip()
    if not date_s or not desc or not amt_s:
        return None
    fmt = layout["datefmt"]
    if " " not in fmt:
        date_s = date_s.split()[0]
    try:
        d = dt.datetime.strptime(date_s, fmt)
    except ValueError:
        return None
    v = read_amount(amt_s, decimal_sep)
    if v is None:
        return None
    if sign == "abs":
        v = abs(v)
    elif sign == "negate":
        v = -v
    if v == 0:
        return None
    amount = float(v)
    out = {"date": d, "raw_description": desc, "amount": amount, "source": source_name, "is_credit": amount < 0,
           "field": fields or None}
    if layout.get("location") is not None:
        loc = cells[layout["location"]].strip()
        if loc:
            out["location"] = loc
    return out
