"""Reference interpreter for the documented transaction-expression language (C04).

The expression is parsed with `ast`, names are lower-cased, and the tree is TRANSLATED TO PYTHON and
evaluated by Python itself in a namespace of small helpers, so and/or/not, comparison chains, comprehensions,
generators, any/all/sum/len/next/min/max and := have Python's semantics by construction.  Shares no code with
tally.expr_parser.  Any exception means "the reference does not define this case" (ill-typed: C08's business).
"""
import ast
import datetime as dt
import re
import warnings


class RefError(Exception):
    pass


# ------------------------------------------------------------------------------------------------ comparison wrapper
def _coerce(a, b):
    """date vs ISO string: the string is read as a date."""
    if isinstance(a, dt.date) and isinstance(b, str):
        return a, dt.date.fromisoformat(b)
    if isinstance(a, str) and isinstance(b, dt.date):
        return dt.date.fromisoformat(a), b
    return a, b


class W:
    """Operand of a comparison: ==, != and `in` ignore case for two strings; dates compare with ISO strings."""
    __slots__ = ("v",)

    def __init__(self, v):
        self.v = v

    def __eq__(self, o):
        a, b = _coerce(self.v, o.v)
        if isinstance(a, str) and isinstance(b, str):
            return a.lower() == b.lower()
        return a == b

    def __ne__(self, o):
        return not self.__eq__(o)

    def __lt__(self, o):
        a, b = _coerce(self.v, o.v)
        return a < b

    def __le__(self, o):
        a, b = _coerce(self.v, o.v)
        return a <= b

    def __gt__(self, o):
        a, b = _coerce(self.v, o.v)
        return a > b

    def __ge__(self, o):
        a, b = _coerce(self.v, o.v)
        return a >= b

    def __contains__(self, item):          # item in self
        a, b = item.v, self.v
        if isinstance(b, str) and isinstance(a, str):
            return a.upper() in b.upper()
        return a in b

    __hash__ = None


# ------------------------------------------------------------------------------------------------ documented functions
def _text_args(desc, args, n):
    """f(pattern...) searches the description; f(text, pattern...) searches the given text."""
    if len(args) == n:
        return (desc,) + tuple(args)
    if len(args) == n + 1:
        return tuple(args)
    raise RefError("arity")


def make_functions(desc):
    def contains(*a):
        t, p = _text_args(desc, a, 1)
        return p.upper() in t.upper()

    def startswith(*a):
        t, p = _text_args(desc, a, 1)
        return t.upper().startswith(p.upper())

    def anyof(*pats):
        return any(p.upper() in desc.upper() for p in pats)

    def regex(*a):
        t, p = _text_args(desc, a, 1)
        return re.search(p, t, re.I) is not None

    def normalized(*a):
        t, p = _text_args(desc, a, 1)

        def norm(s):
            return re.sub(r"[\s\-'.*]+", "", s.upper())
        return norm(p) in norm(t)

    def fuzzy(*a):
        # only the unambiguous cases: exact (case-insensitive) substring -> True ; empty pattern -> True
        t, p = _text_args(desc, a, 1)
        if p.upper() in t.upper():
            return True
        raise RefError("fuzzy threshold semantics are not specified")

    def extract(*a):
        t, p = _text_args(desc, a, 1)
        m = re.search(p, t, re.I)
        if m and m.re.groups >= 1:
            g = m.group(1)
            return g if g is not None else ""
        return ""

    def split(*a):
        t, d, i = _text_args(desc, a, 2)
        if not isinstance(i, int) or isinstance(i, bool):
            raise RefError("index")
        parts = t.split(d)
        return parts[i].strip() if 0 <= i < len(parts) else ""

    def substring(*a):
        t, s, e = _text_args(desc, a, 2)
        if not isinstance(s, int) or not isinstance(e, int):
            raise RefError("index")
        return t[s:e]

    def trim(*a):
        if len(a) == 0:
            return desc.strip()
        if len(a) == 1:
            return str(a[0]).strip()
        raise RefError("arity")

    def regex_replace(t, p, r):
        return re.sub(str(p), str(r), str(t), flags=re.I)

    def uppercase(t):
        return str(t).upper()

    def lowercase(t):
        return str(t).lower()

    def strip_prefix(t, x):
        t, x = str(t), str(x)
        return t[len(x):] if t.upper().startswith(x.upper()) else t

    def strip_suffix(t, x):
        t, x = str(t), str(x)
        if x and t.upper().endswith(x.upper()):
            return t[:len(t) - len(x)]
        return t

    return {"contains": contains, "startswith": startswith, "anyof": anyof, "regex": regex, "normalized": normalized, "fuzzy": fuzzy,
            "extract": extract, "split": split, "substring": substring, "trim": trim, "regex_replace": regex_replace, "uppercase": uppercase,
            "lowercase": lowercase, "strip_prefix": strip_prefix, "strip_suffix": strip_suffix,
            "abs": abs, "round": round, "len": len, "sum": sum, "any": any, "all": all, "next": next, "min": min, "max": max}


def _div(a, b):
    return 0 if b == 0 else a / b


def _mod(a, b):
    return 0 if b == 0 else a % b


def _method(obj, name, *args):
    if not isinstance(obj, str):
        raise RefError("method on non-string")
    if name == "lower" and not args:
        return obj.lower()
    if name == "upper" and not args:
        return obj.upper()
    if name == "strip" and not args:
        return obj.strip()
    if name == "startswith" and len(args) == 1:
        return obj.startswith(args[0])
    if name == "endswith" and len(args) == 1:
        return obj.endswith(args[0])
    if name == "replace" and len(args) == 2:
        return obj.replace(args[0], args[1])
    raise RefError("undocumented method")


def _row(obj, name):
    if isinstance(obj, dict):
        return obj[name]
    raise RefError("attribute of non-row")


def _exists(thunk):
    try:
        v = thunk()
    except Exception:  # noqa
        return False
    return bool(v and str(v).strip())


# ------------------------------------------------------------------------------------------------ translation
_DOCUMENTED = (ast.Expression, ast.BoolOp, ast.BinOp, ast.UnaryOp, ast.Compare, ast.Call, ast.IfExp, ast.And, ast.Or, ast.Not, ast.Add, ast.Sub,
               ast.Mult, ast.Div, ast.Mod, ast.USub, ast.Eq, ast.NotEq, ast.Lt, ast.LtE, ast.Gt, ast.GtE, ast.In, ast.NotIn, ast.Constant, ast.Name,
               ast.Load, ast.Store, ast.Attribute, ast.ListComp, ast.comprehension, ast.GeneratorExp, ast.Subscript, ast.NamedExpr)


class _Tr(ast.NodeTransformer):
    def visit(self, node):
        if not isinstance(node, _DOCUMENTED):
            raise RefError(f"undocumented construct {type(node).__name__}")
        if isinstance(node, ast.comprehension) and (node.is_async or not isinstance(node.target, ast.Name)):
            raise RefError("undocumented comprehension form")
        if isinstance(node, ast.Subscript) and isinstance(node.slice, (ast.Slice, ast.Tuple)):
            raise RefError("undocumented subscript")
        return super().visit(node)

    def visit_Name(self, n):
        return ast.copy_location(ast.Name(id=n.id.lower(), ctx=n.ctx), n)

    def visit_BoolOp(self, n):
        self.generic_visit(n)
        return ast.copy_location(ast.Call(func=ast.Name(id="__bool", ctx=ast.Load()), args=[n], keywords=[]), n)

    def visit_BinOp(self, n):
        self.generic_visit(n)
        if isinstance(n.op, ast.Div):
            return ast.copy_location(ast.Call(func=ast.Name(id="__div", ctx=ast.Load()), args=[n.left, n.right], keywords=[]), n)
        if isinstance(n.op, ast.Mod):
            return ast.copy_location(ast.Call(func=ast.Name(id="__mod", ctx=ast.Load()), args=[n.left, n.right], keywords=[]), n)
        if not isinstance(n.op, (ast.Add, ast.Sub, ast.Mult)):
            raise RefError("undocumented operator")
        return n

    def visit_UnaryOp(self, n):
        self.generic_visit(n)
        if not isinstance(n.op, (ast.Not, ast.USub)):
            raise RefError("undocumented operator")
        return n

    def visit_Compare(self, n):
        self.generic_visit(n)

        def w(x):
            return ast.Call(func=ast.Name(id="__W", ctx=ast.Load()), args=[x], keywords=[])
        for op in n.ops:
            if isinstance(op, (ast.Is, ast.IsNot)):
                raise RefError("undocumented operator")
        new = ast.Compare(left=w(n.left), ops=n.ops, comparators=[w(c) for c in n.comparators])
        return ast.copy_location(new, n)

    def visit_Attribute(self, n):
        if isinstance(n.value, ast.Name) and n.value.id.lower() == "txn":
            return ast.copy_location(ast.Subscript(value=ast.Name(id="__txn", ctx=ast.Load()), slice=ast.Constant(n.attr.lower()), ctx=ast.Load()), n)
        if isinstance(n.value, ast.Name) and n.value.id.lower() == "field":
            return ast.copy_location(ast.Subscript(value=ast.Name(id="__field", ctx=ast.Load()), slice=ast.Constant(n.attr.lower()), ctx=ast.Load()), n)
        self.generic_visit(n)
        return ast.copy_location(ast.Call(func=ast.Name(id="__row", ctx=ast.Load()), args=[n.value, ast.Constant(n.attr.lower())], keywords=[]), n)

    def visit_Call(self, n):
        if n.keywords:
            raise RefError("keywords")
        if isinstance(n.func, ast.Attribute):
            obj = self.visit(n.func.value)
            args = [self.visit(a) for a in n.args]
            return ast.copy_location(ast.Call(func=ast.Name(id="__method", ctx=ast.Load()),
                                              args=[obj, ast.Constant(n.func.attr.lower())] + args, keywords=[]), n)
        if not isinstance(n.func, ast.Name):
            raise RefError("call shape")
        fname = n.func.id.lower()
        if fname == "exists":
            if len(n.args) != 1:
                raise RefError("arity")
            body = self.visit(n.args[0])
            lam = ast.Lambda(args=ast.arguments(posonlyargs=[], args=[], kwonlyargs=[], kw_defaults=[], defaults=[]), body=body)
            return ast.copy_location(ast.Call(func=ast.Name(id="__exists", ctx=ast.Load()), args=[lam], keywords=[]), n)
        args = [self.visit(a) for a in n.args]
        return ast.copy_location(ast.Call(func=ast.Subscript(value=ast.Name(id="__fn", ctx=ast.Load()), slice=ast.Constant(fname), ctx=ast.Load()),
                                          args=args, keywords=[]), n)


_cache = {}


def compile_ref(expr):
    if expr not in _cache:
        with warnings.catch_warnings():
            warnings.simplefilter("ignore")
            tree = ast.parse(expr, mode="eval")
        tree = _Tr().visit(tree)
        ast.fix_missing_locations(tree)
        _cache[expr] = compile(tree, "<ref>", "eval")
    return _cache[expr]


def evaluate(expr, txn, variables=None, data_sources=None):
    """Reference value of `expr` for a transaction dict (description, amount, date, field, source, location)."""
    desc = txn.get("description", "")
    d = txn.get("date")
    amount = txn.get("amount", 0.0)
    source = txn.get("source") or ""
    location = txn.get("location") or ""
    prim = {"description": desc, "amount": amount, "date": d, "month": d.month if d else 0, "year": d.year if d else 0,
            "day": d.day if d else 0, "weekday": d.weekday() if d else 0, "source": source, "true": True, "false": False}
    ns = {}
    for k, v in (data_sources or {}).items():
        ns[k.lower()] = v
    ns.update(prim)
    for k, v in (variables or {}).items():
        ns[k.lower()] = v
    field = {"description": desc, "amount": amount, "date": d, "source": source, "location": location}
    for k, v in (txn.get("field") or {}).items():
        field.setdefault(k.lower(), v)
    ns.update({"__W": W, "__bool": bool, "__div": _div, "__mod": _mod, "__method": _method, "__row": _row, "__exists": _exists,
               "__fn": make_functions(desc), "__field": field,
               "__txn": {"description": desc, "amount": amount, "date": d, "source": source, "location": location, "month": prim["month"],
                         "year": prim["year"], "day": prim["day"], "weekday": prim["weekday"]},
               "__builtins__": {}})
    code = compile_ref(expr)
    return eval(code, ns)
