"""Reference for C06/C12/C13: bucket of one transaction and totals of a list, straight from the
property statement (income > investment > transfer > sign; case-insensitive tags)."""

BUCKETS = ("income", "investment", "transfer_in", "transfer_out", "spending", "credits")


def bucket(amount, tags):
    low = {str(t).lower() for t in (tags or [])}
    if "income" in low:
        return "income"
    if "investment" in low:
        return "investment"
    if "transfer" in low:
        return "transfer_in" if amount > 0 else "transfer_out"
    return "spending" if amount > 0 else "credits"


def excluded(tags):
    low = {str(t).lower() for t in (tags or [])}
    return bool(low & {"income", "investment", "transfer"})


def totals(txns):
    t = {b: 0.0 for b in BUCKETS}
    for x in txns:
        t[bucket(x["amount"], x.get("tags"))] += abs(x["amount"])
    t["cash_flow"] = t["income"] - t["spending"] + t["credits"]
    t["transfers_net"] = t["transfer_in"] - t["transfer_out"]
    return t
