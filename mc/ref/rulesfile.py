"""Strict structural readers for merchants (.rules) and views files (C17).

Each returns one of
    ("ok", reading)                      reading = comparable structure
    ("malformed", line, header_line)     line = offending line number (1-based), header_line = its section header (or None)
    ("ambiguous", why)                   duplicate single-valued key etc. - not judged
They know nothing about tally's parser; expressions are only checked for Python syntax.
"""
import ast
import re

IDENT = r"[a-zA-Z_][a-zA-Z0-9_]*"
MERCHANT_KEYS = {"match", "category", "subcategory", "merchant", "tags", "priority", "let", "field"}


def _syntax_ok(expr):
    try:
        import warnings
        with warnings.catch_warnings():
            warnings.simplefilter("ignore")
            ast.parse(expr, mode="eval")
        return True
    except SyntaxError:
        return False


def split_tags(value):
    out, depth, cur = set(), 0, []
    for ch in value:
        if ch == "(":
            depth += 1
        elif ch == ")":
            depth -= 1
        if ch == "," and depth == 0:
            t = "".join(cur).strip()
            if t:
                out.add(t)
            cur = []
        else:
            cur.append(ch)
    t = "".join(cur).strip()
    if t:
        out.add(t)
    return sorted(out)


def read_merchants(text):
    variables, transforms, rules = {}, [], []
    cur = None
    cur_line = None

    def finish():
        nonlocal cur
        if cur is None:
            return None
        if "match" not in cur:
            return ("malformed", cur_line, cur_line)
        if not cur.get("category") and not cur.get("tags"):
            return ("malformed", cur_line, cur_line)
        rules.append(cur)
        cur = None
        return None

    for n, raw in enumerate(text.split("\n"), 1):
        s = raw.strip()
        if not s or s.startswith("#"):
            continue
        if s.startswith("[") and s.endswith("]"):
            bad = finish()
            if bad:
                return bad
            name = s[1:-1].strip()
            if not name:
                return ("malformed", n, n)
            cur = {"name": name, "let": [], "field": {}}
            cur_line = n
            continue
        if cur is None:
            m = re.match(r"^(field\.%s|%s)\s*=\s*(.+)$" % (IDENT, IDENT), s)
            if not m:
                return ("malformed", n, None)
            lhs, rhs = m.groups()
            if lhs.startswith("field."):
                transforms.append((lhs, rhs))
            else:
                if lhs.lower() in variables:
                    return ("ambiguous", "duplicate variable")
                variables[lhs.lower()] = rhs
            continue
        if ":" not in s:
            return ("malformed", n, cur_line)
        key, value = s.split(":", 1)
        key, value = key.strip().lower(), value.strip()
        if key not in MERCHANT_KEYS:
            return ("malformed", n, cur_line)
        if key in ("let", "field"):
            m = re.match(r"^(%s)\s*=\s*(.+)$" % IDENT, value)
            if not m:
                return ("malformed", n, cur_line)
            if not _syntax_ok(m.group(2)):
                return ("malformed", n, cur_line)
            if key == "let":
                cur["let"].append((m.group(1).lower(), m.group(2)))
            else:
                if m.group(1).lower() in cur["field"]:
                    return ("ambiguous", "duplicate field")
                cur["field"][m.group(1).lower()] = m.group(2)
            continue
        if key in cur:
            return ("ambiguous", f"duplicate {key}")
        if key == "priority":
            if not re.fullmatch(r"[+-]?\d+", value):
                return ("malformed", n, cur_line)
            cur["priority"] = int(value)
        elif key == "tags":
            cur["tags"] = split_tags(value)
        elif key == "match":
            if not value or not _syntax_ok(value):
                return ("malformed", n, cur_line)
            cur["match"] = value
        else:
            cur[key] = value
    bad = finish()
    if bad:
        return bad
    return ("ok", {"variables": variables, "transforms": transforms, "rules": rules})


def read_views(text):
    gvars, sections = {}, []
    cur = None
    cur_line = None

    def finish():
        nonlocal cur
        if cur is None:
            return None
        if "filter" not in cur:
            return ("malformed", cur_line, cur_line)
        sections.append(cur)
        cur = None
        return None

    for n, raw in enumerate(text.split("\n"), 1):
        if re.match(r"^\s*#", raw) or re.match(r"^\s*$", raw):
            continue
        m = re.match(r"^\[([^\]]+)\]\s*$", raw)
        if m:
            bad = finish()
            if bad:
                return bad
            cur = {"name": m.group(1).strip(), "variables": {}}
            cur_line = n
            continue
        s = raw.strip()
        m = re.match(r"^filter:\s*(.+)$", s)
        if m:
            if cur is None:
                return ("malformed", n, None)
            if "filter" in cur:
                return ("ambiguous", "duplicate filter")
            if not _syntax_ok(m.group(1).strip()):
                return ("malformed", n, cur_line)
            cur["filter"] = m.group(1).strip()
            continue
        m = re.match(r"^description:\s*(.+)$", s)
        if m:
            if cur is None:
                return ("malformed", n, None)
            if "description" in cur:
                return ("ambiguous", "duplicate description")
            cur["description"] = m.group(1).strip()
            continue
        m = re.match(r"^(\w+)\s*=\s*(.+)$", s)
        if m:
            if not _syntax_ok(m.group(2).strip()):
                return ("malformed", n, cur_line)
            tgt = gvars if cur is None else cur["variables"]
            if m.group(1) in tgt:
                return ("ambiguous", "duplicate variable")
            tgt[m.group(1)] = m.group(2).strip()
            continue
        return ("malformed", n, cur_line)
    bad = finish()
    if bad:
        return bad
    return ("ok", {"variables": gvars, "sections": sections})
