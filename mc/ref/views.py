"""Reference primitives / aggregates / filter evaluation for views (C10), computed from the RAW transactions
(real dates), independent of tally.expr_parser and tally.analyzer."""
import ast
import datetime as dt
import warnings

from mc.ref.expr import W, RefError, _div, _mod


def _is_nested(v):
    return bool(v) and isinstance(v, list) and isinstance(v[0], list)


def _agg(fn, empty=0):
    def f(values):
        if _is_nested(values):
            return [fn(g) if g else empty for g in values]
        return fn(values) if values else empty
    return f


class VW(W):
    """views: `x in tags` lower-cases x for the (lower-cased) tag set."""
    def __contains__(self, item):
        a, b = item.v, self.v
        if isinstance(b, (set, frozenset)):
            return (a.lower() if isinstance(a, str) else a) in b
        if isinstance(b, str) and isinstance(a, str):
            raise RefError("substring test is not documented for views")
        return a in b


class _Tr(ast.NodeTransformer):
    OK = (ast.Expression, ast.BoolOp, ast.BinOp, ast.UnaryOp, ast.Compare, ast.Call, ast.IfExp, ast.And, ast.Or, ast.Not, ast.Add, ast.Sub, ast.Mult,
          ast.Div, ast.Mod, ast.USub, ast.Eq, ast.NotEq, ast.Lt, ast.LtE, ast.Gt, ast.GtE, ast.In, ast.NotIn, ast.Constant, ast.Name, ast.Load)

    def visit(self, node):
        if not isinstance(node, self.OK):
            raise RefError("undocumented")
        return super().visit(node)

    def visit_Name(self, n):
        return ast.copy_location(ast.Name(id=n.id.lower(), ctx=n.ctx), n)

    def visit_BoolOp(self, n):
        self.generic_visit(n)
        return ast.copy_location(ast.Call(func=ast.Name(id="__bool", ctx=ast.Load()), args=[n], keywords=[]), n)

    def visit_BinOp(self, n):
        self.generic_visit(n)
        if isinstance(n.op, ast.Div):
            return ast.copy_location(ast.Call(func=ast.Name(id="__div", ctx=ast.Load()), args=[n.left, n.right], keywords=[]), n)
        if isinstance(n.op, ast.Mod):
            return ast.copy_location(ast.Call(func=ast.Name(id="__mod", ctx=ast.Load()), args=[n.left, n.right], keywords=[]), n)
        return n

    def visit_Compare(self, n):
        self.generic_visit(n)

        def w(x):
            return ast.Call(func=ast.Name(id="__W", ctx=ast.Load()), args=[x], keywords=[])
        return ast.copy_location(ast.Compare(left=w(n.left), ops=n.ops, comparators=[w(c) for c in n.comparators]), n)

    def visit_Call(self, n):
        if n.keywords or not isinstance(n.func, ast.Name):
            raise RefError("call shape")
        args = [self.visit(a) for a in n.args]
        return ast.copy_location(ast.Call(func=ast.Subscript(value=ast.Name(id="__fn", ctx=ast.Load()), slice=ast.Constant(n.func.id.lower()), ctx=ast.Load()),
                                          args=args, keywords=[]), n)


_cache = {}


def _compile(expr):
    if expr not in _cache:
        with warnings.catch_warnings():
            warnings.simplefilter("ignore")
            tree = ast.parse(expr, mode="eval")
        tree = _Tr().visit(tree)
        ast.fix_missing_locations(tree)
        _cache[expr] = compile(tree, "<viewref>", "eval")
    return _cache[expr]


def primitives(txns):
    """txns: the merchant's raw transactions: dicts with amount (payment as counted), date (datetime/date), category, subcategory, tags."""
    payments = [t["amount"] for t in txns]
    months = {(t["date"].year, t["date"].month) for t in txns}
    monthly = {}
    for t in txns:
        k = (t["date"].year, t["date"].month)
        monthly[k] = monthly.get(k, 0) + t["amount"]
    vals = list(monthly.values())
    cv = 0.0
    cv_defined = True
    if len(vals) >= 2:
        mean = sum(vals) / len(vals)
        if mean == 0:
            cv_defined = False
        else:
            cv = (sum((x - mean) ** 2 for x in vals) / len(vals)) ** 0.5 / mean
    tags = set()
    for t in txns:
        for tg in t.get("tags", []):
            tags.add(tg.lower())
    return {"payments": payments, "months": len(months) if months else 1, "total": sum(payments), "cv": cv, "_cv_defined": cv_defined,
            "category": txns[0]["category"] if txns else "", "subcategory": txns[0]["subcategory"] if txns else "",
            "merchant": txns[0]["merchant"] if txns else "", "tags": tags}


def by(txns, field):
    field = field.lower()
    groups = {}
    for t in txns:
        d = t["date"]
        if field == "month":
            k = (d.year, d.month)
        elif field == "year":
            k = (d.year,)
        elif field == "day":
            k = (d.year, d.month, d.day)
        elif field == "week":
            k = (d.year, int(d.strftime("%W")))
        else:
            raise RefError("unknown grouping")
        groups.setdefault(k, []).append(t["amount"])
    return [groups[k] for k in sorted(groups)]


def _sample_stddev(g):
    """Sample standard deviation (n - 1), exact up to the final square root; 0 for fewer than two values."""
    import math
    from fractions import Fraction
    if len(g) < 2:
        return 0
    xs = [Fraction(x) for x in g]
    mean = sum(xs) / len(xs)
    var = sum((x - mean) ** 2 for x in xs) / (len(xs) - 1)
    return math.sqrt(var)


def evaluate(expr, txns, variables, period):
    prim = primitives(txns)
    if not prim["_cv_defined"]:
        import re
        if re.search(r"\bcv\b", expr, re.I):
            raise RefError("cv undefined for zero mean")

    def period_fn(f):
        f = f.lower()
        if f in period:
            return period[f]
        raise RefError("period field")

    fns = {"sum": _agg(sum), "count": lambda v: [len(g) for g in v] if _is_nested(v) else len(v), "avg": _agg(lambda g: sum(g) / len(g)),
           "max": _agg(max), "min": _agg(min), "stddev": _agg(_sample_stddev), "abs": abs, "round": round, "by": lambda f: by(txns, f), "period": period_fn,
           "max_val": lambda a, b: max(a, b), "min_val": lambda a, b: min(a, b)}
    ns = {k: v for k, v in prim.items() if not k.startswith("_")}
    ns.update({"true": True, "false": False})
    for k, v in (variables or {}).items():
        ns[k.lower()] = v
    ns.update({"__W": VW, "__bool": bool, "__div": _div, "__mod": _mod, "__fn": fns, "__builtins__": {}})
    return eval(_compile(expr), ns)


def eval_variables(var_exprs, txns, existing, period):
    out = dict(existing or {})
    for name, ex in var_exprs.items():
        try:
            out[name] = evaluate(ex, txns, out, period)
        except Exception:  # noqa
            out[name] = None
    return out
