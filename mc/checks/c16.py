"""C16 - explain and discover describe the same classification that up applies.

Exhaustive over budgets built from rule-file features: every subset (quick: of size <= 1; thorough: all 64) of
{tag-only rule first, top-level variable, let+field rule, `not contains(..)` condition, weekday condition,
`"X" in description` condition} x rule mode {first_match, most_specific} x {no transform, one transform} x
{no supplemental source, a supplemental source queried by a rule}, plus legacy-CSV budgets; each with a
8-row statement.  All three commands run through the real CLI in fresh forked processes:
  * every merchant that `tally up --format json -v` lists: `tally explain <merchant> --format json` must report
    the same category, subcategory, tags and matched pattern;
  * every probe (description, amount) absent from the data: `tally explain "<description>" --amount a --format
    json` must equal the classification `tally up` gives that row in a twin budget that contains it;
  * `tally discover --format json` must list exactly the raw descriptions `up` leaves Unknown, with equal
    counts and totals.
"""
import itertools
import json
import os
import shutil

from mc.core import harness as H
from mc.core import proc
from mc.checks import rules_common as R

PROPERTY = "C16"
LEVEL = "exploration"
DETERMINISM_CASES = 1
RULE = ("cases = every budget over feature subsets (size <= 1 quick / all 64 thorough) x 2 rule modes x 2 transform settings x 2 supplemental settings, plus 4 legacy-CSV "
        "budgets; per budget: 1 `up`, one `explain <merchant>` per merchant, 15 probes x (`explain <description> --amount`, `up` on the twin budget), 1 `discover`. "
        "non-trivial = budgets with >= 1 feature or non-default mode/transform/supplemental; budgets distinct by construction")
ASSUMPTIONS = ["probes are (description, amount) pairs whose classification does not depend on date, source or custom fields (explain cannot be told those)",
               "explain's description trace is compared on merchant, category, subcategory; tags/pattern are compared on the explain-merchant path"]

FEATURES = ["tagonly-first", "variable", "let-field", "not-contains", "weekday", "in-description"]

STMT = [("01/05/2025", "NETFLIX.COM 1", "15.50"), ("01/06/2025", "UBER EATS 22", "30.00"), ("01/07/2025", "UBER TRIP", "150.00"), ("02/03/2025", "COFFEE BAR", "4.50"),
        ("02/04/2025", "SQ *COFFEE CART", "5.50"), ("02/05/2025", "MYSTERY SHOP", "99.75"), ("02/06/2025", "ODD PLACE", "19.99"), ("02/07/2025", "ODD PLACE", "4.35"),
        # two identical uncategorised charges on one day (each counts), and one whose description holds a run of blanks
        ("02/08/2025", "TWIN CHARGE", "7.25"), ("02/08/2025", "TWIN CHARGE", "7.25"), ("02/09/2025", "ACME  CORP   55", "12.00"),
        # a rule-named merchant (ODDCASE) and an uncategorised one whose derived name differs from it only in letter case (Oddcase)
        ("02/10/2025", "ODDCASE CORP 1", "33.00"), ("02/11/2025", "oddcase 4411", "8.00"),
        # one merchant name reached through two rules with different categories; the rows are NOT in date order (newest first, as many exports are)
        ("03/02/2025", "COSTCO WHSE 77", "80.00"), ("03/01/2025", "COSTCO GAS 12", "40.00")]
PROBES = [("ZZ NETFLIX PROBE", 50.0), ("ZZ UBER EATS PROBE", 50.0), ("ZZ UBER PROBE", 150.0), ("ZZ COFFEE PROBE", 50.0), ("ZZ NOTHING PROBE", 150.0),
          ("SQ *ZZ NETFLIX PROBE", 50.0), ("ZZ BOOKISH PROBE", 99.75), ("SQ *ZZ NOWHERE PROBE", 50.0), ("ZZ OUTLET PROBE", 40.0), ("ZZ OUTLET PROBE", -40.0),
          # runs of blanks are part of the description (a rule can depend on them)
          ("ZZ ACME  CORP PROBE", 50.0), ("ZZ ACME CORP PROBE", 50.0), ("ZED   MART PROBE", 50.0),
          # transformed once this still starts with APLPAY (an [Apple Pay] rule decides); transformed twice it would not
          ("SQ *APLPAY ZZ NETFLIX PROBE", 50.0), ("APLPAY SQ *ZZ NETFLIX PROBE", 50.0)]


def rules_text(feats, transform, supplemental):
    pre, rules = [], []
    if transform:
        # two prefix strippers: applying the pair twice is not the same as applying it once ("SQ *APLPAY X" -> "APLPAY X" -> ... )
        pre.append('field.description = strip_prefix(field.description, "APLPAY ")')
        pre.append('field.description = regex_replace(field.description, "^SQ \\\\*", "")')
    if "variable" in feats:
        pre.append('is_eats = contains("EATS")')
    if "tagonly-first" in feats:
        rules.append('[Large]\nmatch: amount > 100\ntags: large\n')
    if "variable" in feats:
        rules.append('[Uber Eats]\nmatch: contains("UBER") and is_eats\ncategory: Food\nsubcategory: Delivery\ntags: eats\n')
    if "let-field" in feats:
        rules.append('[Coffee Numbered]\nlet: kind = extract("COFFEE (\\\\w+)")\nmatch: kind != ""\ncategory: Food\nsubcategory: Coffee\nfield: kind = kind\ntags: {kind}\n')
    if "not-contains" in feats:
        rules.append('[Uber Ride]\nmatch: not contains("EATS") and contains("UBER")\ncategory: Transport\nsubcategory: Rideshare\n')
    if supplemental and "variable" in feats:
        # the supplemental source is named ONLY in a top-level variable
        pre.append('has_order = any(r.amount == amount for r in orders)')
        rules.append('[Ordered]\nmatch: has_order\ncategory: Shopping\nsubcategory: Orders\ntags: verified\n')
    elif supplemental:
        if transform:
            # the supplemental source is named only in a let: binding
            rules.append('[Ordered]\nlet: hits = [r for r in orders if r.amount == amount]\nmatch: len(hits) > 0\ncategory: Shopping\nsubcategory: Orders\ntags: verified\n')
        else:
            rules.append('[Ordered]\nmatch: any(r.amount == amount for r in orders)\ncategory: Shopping\nsubcategory: Orders\ntags: verified\n')
    rules.append('[Costco Gas]\nmatch: contains("COSTCO GAS")\ncategory: Transport\nsubcategory: Fuel\nmerchant: Costco\n')
    rules.append('[Costco]\nmatch: contains("COSTCO")\ncategory: Food\nsubcategory: Groceries\n')
    rules.append('[Apple Pay]\nmatch: startswith("APLPAY")\ncategory: Wallet\nsubcategory: ApplePay\n')
    rules.append('[ODDCASE]\nmatch: contains("ODDCASE CORP")\ncategory: Income\nsubcategory: Odd\ntags: odd\n')
    rules.append('[Acme Two Blanks]\nmatch: contains("ACME  CORP") or startswith("ZED   MART")\ncategory: Office\nsubcategory: Supplies\n')
    # only negative amounts: a positive probe with the same description stays Unknown
    rules.append('[Outlet Refund]\nmatch: amount < 0 and contains("OUTLET")\ncategory: Income\nsubcategory: Refunds\n')
    if "in-description" in feats:
        rules.append('[Netflix]\nmatch: "NETFLIX" in description\ncategory: Subs\nsubcategory: Streaming\ntags: video\n')
    else:
        rules.append('[Netflix]\nmatch: contains("NETFLIX")\ncategory: Subs\nsubcategory: Streaming\ntags: video\n')
    rules.append('[Uber]\nmatch: contains("UBER")\ncategory: Transport\nsubcategory: Ride\ntags: ride\n')
    rules.append('[Uber Eats Plain]\nmatch: contains("UBER") and contains("EATS")\ncategory: Food\nsubcategory: Takeout\n')
    if "weekday" in feats:
        rules.append('[Coffee]\nmatch: weekday >= 0 and contains("COFFEE")\ncategory: Food\nsubcategory: Cafe\n')
    else:
        rules.append('[Coffee]\nmatch: startswith("COFFEE") or contains(" COFFEE")\ncategory: Food\nsubcategory: Cafe\n')
    # matches the statement text of Square rows only; with the transform in place it can never fire in `up`
    rules.append('[Square]\nmatch: startswith("SQ ")\ncategory: Shopping\nsubcategory: Square\n')
    return "\n".join(pre) + "\n\n" + "\n".join(rules)


CSV_RULES = "Pattern,Merchant,Category,Subcategory,Tags\nNETFLIX,Netflix,Subs,Streaming,video\nNETFLIX\\.COM,Netflix Web,Subs,Web,\nUBER\\s(?!EATS),Uber,Transport,Ride,ride\nUBER,Uber Eats,Food,Takeout,\nCOFFEE[amount<100],Coffee,Food,Cafe,\n.*[amount>100],Large,,,large\n"


def bounds(tier):
    return {"features": FEATURES, "max_features": 1 if tier == "quick" else 6, "probes": len(PROBES), "statement_rows": len(STMT)}


def gen_cases(tier):
    k = 1 if tier == "quick" else len(FEATURES)
    for n in range(0, k + 1):
        for fs in itertools.combinations(FEATURES, n):
            for mode in (None, "most_specific"):
                for tr in (0, 1):
                    for sup in (0, 1):
                        yield {"kind": "rules", "features": list(fs), "mode": mode, "transform": tr, "supplemental": sup}
    for mode in (None, "most_specific"):
        for sup in (0, 1):
            yield {"kind": "csv", "features": [], "mode": mode, "transform": 0, "supplemental": sup}
    # one statement file named by TWO data sources (read once per source by every command)
    for tr in (0, 1):
        yield {"kind": "rules", "features": [], "mode": None, "transform": tr, "supplemental": 0, "twice": 1}
    yield {"kind": "csv", "features": [], "mode": None, "transform": 0, "supplemental": 0, "twice": 1}


def make_budget(case, base, extra_row=None):
    shutil.rmtree(base, ignore_errors=True)
    os.makedirs(os.path.join(base, "config"))
    os.makedirs(os.path.join(base, "data"))
    rows = list(STMT) + ([extra_row] if extra_row else [])
    with open(os.path.join(base, "data", "s.csv"), "w", encoding="utf-8") as f:
        f.write("Date,Description,Amount\n" + "".join(f"{d},{R.csv_quote(x)},{a}\n" for d, x, a in rows))
    y = ["year: 2025"]
    if case["kind"] == "rules":
        y.append("merchants_file: config/merchants.rules")
        with open(os.path.join(base, "config", "merchants.rules"), "w", encoding="utf-8") as f:
            f.write(rules_text(case["features"], case["transform"], case["supplemental"]))
    else:
        with open(os.path.join(base, "config", "merchant_categories.csv"), "w", encoding="utf-8") as f:
            f.write(CSV_RULES)
    if case["mode"]:
        y.append(f"rule_mode: {case['mode']}")
    card = '  - name: Card\n    file: data/s.csv\n    format: "{date:%m/%d/%Y},{description},{amount}"'
    orders = '  - name: orders\n    file: data/orders.csv\n    format: "{date:%Y-%m-%d},{item},{amount}"\n    columns:\n      description: "{item}"\n    supplemental: true'
    if case.get("twice"):
        card += '\n  - name: Card Again\n    file: ./data/s.csv\n    format: "{date:%m/%d/%Y},{description},{amount}"'
    y.append("data_sources:")
    if case["supplemental"] and case["transform"]:
        y += [orders, card]            # the supplemental source comes first
    else:
        y += [card] + ([orders] if case["supplemental"] else [])
    if case["supplemental"]:
        with open(os.path.join(base, "data", "orders.csv"), "w", encoding="utf-8") as f:
            f.write("Date,Item,Amount\n2025-02-05,Book,99.75\n2025-03-01,Lamp,42.00\n")
    with open(os.path.join(base, "config", "settings.yaml"), "w", encoding="utf-8") as f:
        f.write("\n".join(y) + "\n")


def up_json(base):
    r = proc.run_cli(["up", "--format", "json", "-v"], cwd=base)
    if r["exit"] != 0:
        return None, r
    try:
        return proc.json_document(r["stdout"]), r
    except Exception:
        return None, r


def _json_tail(text):
    """explain prints one or more JSON documents; return the last object."""
    try:
        return proc.json_document(text, last=True)
    except Exception:
        return None


def check_case(case):
    base = os.path.join(R.scratch(), "c16")
    make_budget(case, base)
    viol, evals = [], 0
    label = {k: case[k] for k in ("kind", "features", "mode", "transform", "supplemental")}
    if case.get("twice"):
        label["statement_named_by_two_sources"] = True
    j, r = up_json(base)
    evals += 1
    if j is None:
        shutil.rmtree(base, ignore_errors=True)
        return {"evals": 1, "nontrivial": 1, "outcomes": ["up-failed"], "violations": [
            {"kind": "up-failed", "detail": {"budget": label, "exit": r["exit"], "stderr_tail": r["stderr"][-300:]}}]}
    merchants = {m["name"]: m for m in j["merchants"]}
    outcomes = set()
    # ---- explain <merchant>
    for name, m in merchants.items():
        e = proc.run_cli(["explain", name, "--format", "json"], cwd=base)
        evals += 1
        ej = _json_tail(e["stdout"]) if e["exit"] == 0 else None
        if ej is None or "category" not in ej:
            viol.append({"kind": "explain-merchant-failed", "detail": {"budget": label, "merchant": name, "exit": e["exit"], "stdout_tail": e["stdout"][-200:],
                                                                       "stderr_tail": e["stderr"][-200:]}})
            continue
        want = (m["category"], m["subcategory"], sorted(m["tags"]), (m.get("pattern") or {}).get("matched"))
        got = (ej.get("category"), ej.get("subcategory"), sorted(ej.get("tags", [])), (ej.get("pattern") or {}).get("matched"))
        if want != got:
            viol.append({"kind": "explain-merchant-differs-from-up", "detail": {"budget": label, "merchant": name, "up": want, "explain": got}})
    # ---- discover
    d = proc.run_cli(["discover", "--format", "json", "--limit", "0"], cwd=base)
    evals += 1
    up_unknown = {}
    for m in j["merchants"]:
        if m["category"] == "Unknown":
            for desc, cnt in (m.get("raw_descriptions") or {}).items():
                up_unknown[desc] = cnt
    amounts = {}
    for dt_, desc, a in list(STMT) * (2 if case.get("twice") else 1):        # every source that names the file yields its rows
        amounts.setdefault(desc, []).append(float(a))
    want_d = {desc: (cnt, round(sum(abs(x) for x in amounts.get(desc, [])), 2)) for desc, cnt in up_unknown.items()}
    if d["exit"] == 0 and "No unknown transactions" in d["stdout"]:
        got_d = {}
    else:
        try:
            got_d = {x["raw_description"]: (x["count"], x["total_spend"]) for x in json.loads(d["stdout"][d["stdout"].index("["):])}
        except Exception:
            got_d = None
    if got_d is None:
        viol.append({"kind": "discover-failed", "detail": {"budget": label, "exit": d["exit"], "stdout_tail": d["stdout"][-200:], "stderr_tail": d["stderr"][-200:]}})
    elif got_d != want_d:
        viol.append({"kind": "discover-differs-from-up", "detail": {"budget": label, "unknown_in_up": want_d, "discover": got_d}})
    outcomes.add(f"unknown={len(want_d)}")
    # ---- explain <description> --amount
    for desc, amt in PROBES:
        twin = os.path.join(R.scratch(), "c16twin")
        make_budget(case, twin, extra_row=("03/10/2025", desc, f"{amt:.2f}"))
        tj, tr = up_json(twin)
        evals += 1
        shutil.rmtree(twin, ignore_errors=True)
        if tj is None:
            viol.append({"kind": "up-failed", "detail": {"budget": label, "twin_row": desc, "exit": tr["exit"], "stderr_tail": tr["stderr"][-200:]}})
            continue
        want = None
        for m in tj["merchants"]:
            if desc in (m.get("raw_descriptions") or {}):
                want = (m["name"], m["category"], m["subcategory"])
        e = proc.run_cli(["explain", desc, "--amount", str(amt), "--format", "json"], cwd=base)
        evals += 1
        ej = _json_tail(e["stdout"])
        if ej is None or "merchant" not in ej:
            viol.append({"kind": "explain-description-failed", "detail": {"budget": label, "description": desc, "amount": amt, "exit": e["exit"],
                                                                          "stdout_tail": e["stdout"][-200:], "stderr_tail": e["stderr"][-200:]}})
            continue
        got = (ej.get("merchant"), ej.get("category"), ej.get("subcategory"))
        if got != want:
            viol.append({"kind": "explain-description-differs-from-up", "detail": {"budget": label, "description": desc, "amount": amt, "up_on_twin_budget": want, "explain": got}})
        outcomes.add(str(want[1]) if want else "none")
    shutil.rmtree(base, ignore_errors=True)
    nontrivial = 1 if (case["features"] or case["mode"] or case["transform"] or case["supplemental"] or case["kind"] == "csv") else 0
    return {"evals": evals, "nontrivial": nontrivial, "outcomes": sorted(outcomes), "violations": viol[:20], "sample_repr": {"budget": label}}
