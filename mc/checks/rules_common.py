"""Shared alphabets and drivers for the rule-composition checks (C01, C02, C09, C14, ...)."""
import datetime as dt
import os
import re
import shutil
import tempfile

from mc.core import harness as H

# ----------------------------------------------------------------------------------------------
# transactions
# ----------------------------------------------------------------------------------------------
DESCS = ["NETFLIX.COM 123", "netflix", "UBER EATS", "UBER TRIP 77", "AMAZON MKTP", "COSTCO GAS", "Zoë's CAFÉ", "SQ *NETFLIX"]
CTX = [
    {"date": None, "field": None, "source": None},
    {"date": "2025-01-15", "field": {"memo": "REF 77", "type": "WIRE"}, "source": "Amex"},
    {"date": "2024-12-31", "field": {"memo": "", "type": "ach"}, "source": "chase"},
]
# an additional context whose custom field holds runs of blanks and a tab (used by C02)
CTX_WS = {"date": "2025-02-01", "field": {"memo": "two  blanks\tand tab", "type": "Wire  Fast"}, "source": "Amex  Gold"}
# identical to CTX_WS except for the custom fields
CTX_WS2 = {"date": "2025-02-01", "field": {"memo": "REF 5 other memo", "type": "ACH"}, "source": "Amex  Gold"}
# identical to CTX[1] except for one custom field (same description / amount / date / source)
CTX_TWIN = {"date": "2025-01-15", "field": {"memo": "REF 77", "type": "ACH"}, "source": "Amex"}
AMOUNTS = [-50.0, 100.0, 100.25]


def all_txns(descs=DESCS, amounts=AMOUNTS, ctxs=CTX):
    out = []
    for d in descs:
        for a in amounts:
            for c in ctxs:
                out.append({"description": d, "amount": a, "date": c["date"], "field": c["field"], "source": c["source"]})
    return out


def to_date(s):
    return dt.date.fromisoformat(s) if s else None


def txn_dict(t):
    """The transaction dict as MerchantEngine.match expects it."""
    d = {"description": t["description"], "amount": t["amount"], "field": dict(t["field"]) if t["field"] is not None else None,
         "source": t["source"]}
    if t.get("date"):
        d["date"] = to_date(t["date"])
    return d


# ----------------------------------------------------------------------------------------------
# .rules rendering
# ----------------------------------------------------------------------------------------------
def render_rule(r):
    lines = [f"[{r['name']}]"]
    for var, ex in r.get("let", []):
        lines.append(f"let: {var} = {ex}")
    lines.append(f"match: {r['match']}")
    if r.get("category"):
        lines.append(f"category: {r['category']}")
    if r.get("subcategory"):
        lines.append(f"subcategory: {r['subcategory']}")
    if r.get("merchant"):
        lines.append(f"merchant: {r['merchant']}")
    if r.get("tags"):
        lines.append(f"tags: {r['tags']}")
    if r.get("priority") is not None:
        lines.append(f"priority: {r['priority']}")
    for fn, ex in r.get("fields", []):
        lines.append(f"field: {fn} = {ex}")
    return "\n".join(lines) + "\n"


def render_file(preamble_lines, rules):
    parts = []
    if preamble_lines:
        parts.append("\n".join(preamble_lines) + "\n")
    for r in rules:
        parts.append(render_rule(r))
    return "\n".join(parts)


# ----------------------------------------------------------------------------------------------
# scratch directory (tmpfs when available), one per process
# ----------------------------------------------------------------------------------------------
_scratch = None


def scratch():
    global _scratch
    if _scratch is None or _scratch[0] != os.getpid():
        d = tempfile.mkdtemp(prefix="tallymc-", dir=H.TMP)
        import atexit
        atexit.register(shutil.rmtree, d, True)
        _scratch = (os.getpid(), d)
    return _scratch[1]


def write_scratch(name, text):
    p = os.path.join(scratch(), name)
    with open(p, "w", encoding="utf-8", newline="") as f:
        f.write(text)
    return p


# ----------------------------------------------------------------------------------------------
# drivers over the public entry points
# ----------------------------------------------------------------------------------------------
def engine_result(engine, t, data_sources=None):
    """Observe MerchantEngine.match."""
    r = engine.match(txn_dict(t), data_sources=data_sources)
    return {"matched": bool(r.matched), "merchant": r.merchant, "category": r.category, "subcategory": r.subcategory,
            "tags": sorted(r.tags), "rule": r.matched_rule.name if r.matched_rule else None,
            "extra": {k: _plain(v) for k, v in (r.extra_fields or {}).items()}}


def _plain(v):
    """Make an extra-field value comparable / picklable (generator objects are consumed)."""
    import types
    if isinstance(v, types.GeneratorType):
        try:
            return ["<generator>"] + [_plain(x) for x in v]
        except Exception as e:  # noqa
            return ["<generator>", f"raises {type(e).__name__}"]
    if isinstance(v, list):
        return [_plain(x) for x in v]
    return v


def load_path(path, mode="first_match"):
    """The loading sequence `tally up` uses for a rules file (fresh process state)."""
    from tally.merchant_utils import get_all_rules, get_transforms
    H.reset_state()
    transforms = get_transforms(path, match_mode=mode)
    rules = get_all_rules(path, match_mode=mode)
    return rules, transforms


def normalize_result(rules, transforms, t, data_sources=None):
    from tally.merchant_utils import normalize_merchant
    m, c, s, info = normalize_merchant(t["description"], rules, amount=t["amount"], txn_date=to_date(t["date"]),
                                       field=dict(t["field"]) if t["field"] is not None else None,
                                       data_source=t["source"], transforms=transforms, data_sources=data_sources)
    return {"merchant": m, "category": c, "subcategory": s, "tags": sorted(set((info or {}).get("tags", []))),
            "pattern": (info or {}).get("pattern"), "extra": {k: _plain(v) for k, v in ((info or {}).get("extra_fields") or {}).items()}}


# ----------------------------------------------------------------------------------------------
# legacy CSV reference semantics (documented: regex search ignoring case, modifiers AND-ed)
# ----------------------------------------------------------------------------------------------
_MOD = re.compile(r"\[(amount|date|month)([^\]]*)\]$")


def csv_row_truth(pattern_with_mods, t):
    """Independent reading of a legacy CSV pattern: <regex>[amount..][date..][month=..]. Returns True/False,
    or None when the regex is invalid (row can never match)."""
    pat = pattern_with_mods
    mods = []
    while True:
        m = _MOD.search(pat)
        if not m:
            break
        mods.insert(0, (m.group(1), m.group(2).strip()))
        pat = pat[:m.start()]
    try:
        if not re.search(pat, t["description"], re.I):
            return False
    except re.error:
        return None
    amount = t["amount"]
    d = to_date(t["date"])
    for kind, val in mods:
        if kind == "amount":
            mm = re.fullmatch(r"(>=|<=|>|<|=)\s*([\d.]+)", val)
            if mm:
                op, x = mm.group(1), float(mm.group(2))
                ok = {">": amount > x, ">=": amount >= x, "<": amount < x, "<=": amount <= x, "=": abs(amount - x) < 0.01}[op]
            else:
                mm = re.fullmatch(r":\s*([\d.]+)\s*-\s*([\d.]+)", val)
                lo, hi = float(mm.group(1)), float(mm.group(2))
                ok = lo <= amount <= hi
            if not ok:
                return False
        elif kind == "date":
            if d is None:
                return False
            mm = re.fullmatch(r"=\s*(\d{4}-\d{2}-\d{2})", val)
            if mm:
                ok = d == dt.date.fromisoformat(mm.group(1))
            else:
                mm = re.fullmatch(r":\s*(\d{4}-\d{2}-\d{2})\s*\.\.\s*(\d{4}-\d{2}-\d{2})", val)
                if mm:
                    ok = dt.date.fromisoformat(mm.group(1)) <= d <= dt.date.fromisoformat(mm.group(2))
                else:
                    mm = re.fullmatch(r":\s*last(\d+)days", val, re.I)
                    cutoff = dt.date(*H.FIXED_TODAY) - dt.timedelta(days=int(mm.group(1)))
                    ok = d >= cutoff
            if not ok:
                return False
        elif kind == "month":
            if d is None:
                return False
            mm = re.fullmatch(r"=\s*(\d{1,2})", val)
            if d.month != int(mm.group(1)):
                return False
    return True


def csv_quote(cell):
    if any(ch in cell for ch in ',"\n') or cell != cell.strip():
        return '"' + cell.replace('"', '""') + '"'
    return cell


def render_csv(rows, comments=False):
    """rows: list of dict(pattern, merchant, category, subcategory, tags)"""
    lines = ["Pattern,Merchant,Category,Subcategory,Tags"]
    if comments:
        lines.insert(0, "# legacy rules")
        lines.append("")
        lines.append("# section")
    for r in rows:
        cells = [r["pattern"], r["merchant"], r.get("category", ""), r.get("subcategory", ""), r.get("tags", "")]
        if r.get("cells"):
            cells = cells[:r["cells"]]          # a short row: the trailing cells are absent, not empty
        lines.append(",".join(csv_quote(x) for x in cells))
    return "\n".join(lines) + "\n"
