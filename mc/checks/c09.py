"""C09 - most_specific mode picks the most specific matching rule, whatever the order.

Exhaustive: every ordered sequence (= every subset in every permutation) of <= K distinct rules over a
18-rule alphabet that varies priority, number of pattern functions, constraint kinds, pattern length,
subcategory set/unset, categorising/tag-only, and contains two exact-tie pairs; x 18 transactions; through
MerchantEngine.match(match_mode='most_specific') and get_all_rules/normalize_merchant(match_mode=...).
The expected winner is computed from a rank key derived from the AST of each match expression.
"""
import ast
import functools
import itertools

from mc.core import harness as H
from mc.checks import rules_common as R

PROPERTY = "C09"
LEVEL = "exploration"
RULE = ("cases = every ordered sequence of 1..K distinct rules over a 20-rule alphabet (incl. one rule with a 2100-character pattern and one whose function names are in other letter cases) plus every sequence of K+1 rules over its 12 core rules (K=3 quick, 4 thorough) "
        "(priority unset/0/10/90; 1 or 2 pattern functions; constraint kinds none/amount/amount+month/source; short/long patterns; "
        "subcategory set/unset; one tag-only rule; exact-tie pairs (contains vs regex with equal key, amount vs source constraint)); "
        "each on 30 transactions via engine.match and normalize_merchant in most_specific mode; plus a legacy-CSV family in most_specific mode (library and `tally up --migrate`). "
        "non-trivial = file with >=2 categorising rules true for one transaction; sequences are distinct by construction")
ASSUMPTIONS = ["rank key is read from the AST: (priority, #calls of contains/regex/normalized/startswith/fuzzy/anyof, #distinct constraint kinds among "
               "amount/date/month/year/day/weekday/source/field.*, total length of string literals passed to pattern functions); the alphabet holds only "
               "expressions on which a textual count gives the same key (asserted at start-up)",
               "truth of a condition comes from the real evaluator on the one-rule file",
               "merchant name in most_specific mode is not constrained by the property and is not judged"]

RULES = [
    {"name": "r0", "match": 'contains("UBER")', "category": "A"},
    {"name": "r1", "match": 'contains("UBER")', "category": "B", "subcategory": "b", "priority": 10},
    {"name": "r2", "match": 'contains("EATS")', "category": "C", "priority": 90},
    {"name": "r3", "match": 'contains("UBER") and contains("EATS")', "category": "D", "subcategory": "d"},
    {"name": "r4", "match": 'contains("UBER") and amount > 0', "category": "E"},
    {"name": "r5", "match": 'contains("UBER") and amount > 0 and month == 1', "category": "F", "subcategory": "f"},
    {"name": "r6", "match": 'contains("UBER") and source != ""', "category": "G", "subcategory": "g"},
    {"name": "r7", "match": 'contains("UBER EATS")', "category": "H", "subcategory": "h"},
    {"name": "r8", "match": 'regex("UBER")', "category": "I", "subcategory": "i"},
    {"name": "r9", "match": 'contains("UBER") and contains("EATS")', "tags": "t9"},
    {"name": "r10", "match": "amount > 0", "category": "J", "subcategory": "j"},
    {"name": "r11", "match": 'contains("UB")', "category": "K", "subcategory": "k"},
    # explicit priority 0 (falsy) on an otherwise very specific rule: must lose to every rule of higher priority
    {"name": "r12", "match": 'contains("UBER") and contains("TRIP") and amount > 0', "category": "L", "subcategory": "l", "priority": 0},
    # lowest-ranked rule that shares its category with r4 (which sets no subcategory): the subcategory still comes from the
    # highest-ranked matching rule that sets one, whatever its category
    {"name": "r13", "match": 'contains("U")', "category": "E", "subcategory": "e2"},
    # a let: binding is local to its rule: r15 reads a name only r14 binds, so r15 never matches, wherever it stands
    {"name": "r14", "let": [("m", 'contains("UBER")')], "match": "m and amount > 0", "category": "M", "subcategory": "m"},
    {"name": "r15", "match": "m", "category": "N", "subcategory": "n", "priority": 95},
    # the other quote character inside a pattern (its whole text counts towards the pattern length)
    {"name": "r16", "match": 'contains("UBER\'S")', "category": "O", "subcategory": "o"},
    {"name": "r17", "match": "contains('UBER\"S E')", "category": "P", "subcategory": "p"},
    # a very long pattern text (one component of the rank far larger than the others): still only the LAST component, so every rule
    # with a constraint kind or a second pattern function outranks it
    {"name": "r18", "match": 'anyof("UBER", "' + "X" * 2100 + '")', "category": "Q", "subcategory": "q"},
    # function names written in other letter cases (accepted by the language) count as pattern conditions like any other
    {"name": "r19", "match": 'Contains("UBER") and CONTAINS("EATS")', "category": "R", "subcategory": "r"},
]
PATTERN_FUNCS = {"contains", "regex", "normalized", "startswith", "fuzzy", "anyof"}
KINDS = {"amount", "date", "month", "year", "day", "weekday", "source"}


def ast_key(rule):
    tree = ast.parse(rule["match"], mode="eval")
    ncalls, kinds, plen = 0, set(), 0
    for n in ast.walk(tree):
        if isinstance(n, ast.Call) and isinstance(n.func, ast.Name) and n.func.id.lower() in PATTERN_FUNCS:
            ncalls += 1
            for a in n.args:
                if isinstance(a, ast.Constant) and isinstance(a.value, str):
                    plen += len(a.value)
        elif isinstance(n, ast.Name) and n.id.lower() in KINDS:
            kinds.add(n.id.lower())
        elif isinstance(n, ast.Attribute) and isinstance(n.value, ast.Name) and n.value.id.lower() == "field":
            kinds.add("field")
    return (rule.get("priority", 50), ncalls, len(kinds), plen)


def textual_key(rule):
    import re
    e = rule["match"]
    ncalls = sum(len(re.findall(r"\b" + f + r"\s*\(", e, re.I)) for f in PATTERN_FUNCS)
    stripped = re.sub(r'"[^"]*"|\'[^\']*\'', '""', e).lower()
    kinds = sum(1 for k in list(KINDS) + ["field."] if re.search(r"(?<![a-z_])" + re.escape(k), stripped))
    plen = sum(len(s) for s in re.findall(r'"([^"]*)"', e)) + sum(len(s) for s in re.findall(r"'([^']*)'", e))
    return (rule.get("priority", 50), ncalls, kinds, plen)


KEYS = [ast_key(r) for r in RULES]
TXNS = R.all_txns(descs=["UBER EATS", "UBER TRIP 77", "NETFLIX.COM 123", "UBER'S EATS", 'UBER"S EATS'], amounts=[-50.0, 100.25])


def setup(tier):
    for r, k in zip(RULES, KEYS):
        if textual_key(r) != k:
            raise H.HarnessError(f"alphabet rule {r['name']} is ambiguous: AST key {k} vs textual key {textual_key(r)}")


def bounds(tier):
    return {"max_rules_per_file": "3 over all 20 rules, 4 over the 12 core rules" if tier == "quick" else "4 over all 20 rules, 5 over the 12 core rules", "rules_alphabet": len(RULES), "transactions": len(TXNS),
            "rank_keys": {r["name"]: k for r, k in zip(RULES, KEYS)}}


CORE = list(range(12))      # r0..r11: the rules that vary the four components of the rank key


def gen_cases(tier):
    # quick: every sequence of <=3 rules over the whole alphabet, plus every sequence of 4 rules over the 12 core rules;
    # thorough: every sequence of <=4 over the whole alphabet, plus every sequence of 5 over the core rules
    k = 3 if tier == "quick" else 4
    for n in range(1, k + 1):
        for seq in itertools.permutations(range(len(RULES)), n):
            yield list(seq)
    for seq in itertools.permutations(CORE, k + 1):
        yield list(seq)
    expressible = [i for i, f in CSV_FORM.items() if f]
    for n in range(1, len(expressible) + 1):
        for seq in itertools.permutations(expressible, n):
            yield {"csv": list(seq)}
    # the same files through the command line, migrated on request (files of 2..3 rows; thorough: up to all 5)
    for n in range(2, (3 if tier == "quick" else len(expressible)) + 1):
        for seq in itertools.permutations(expressible, n):
            yield {"cli": list(seq)}


@functools.lru_cache(maxsize=None)
def truth(i):
    from tally.merchant_engine import parse_merchants
    r = dict(RULES[i])
    r["category"] = r.get("category") or "Forced"
    eng = parse_merchants(R.render_file([], [r]), match_mode="first_match")
    return [R.engine_result(eng, t)["matched"] for t in TXNS]


def results(seq):
    from tally.merchant_engine import parse_merchants
    text = R.render_file([], [RULES[i] for i in seq])
    H.reset_state()
    eng = parse_merchants(text, match_mode="most_specific")
    a = [R.engine_result(eng, t) for t in TXNS]
    path = R.write_scratch("m.rules", text)
    rules, transforms = R.load_path(path, "most_specific")
    b = [R.normalize_result(rules, transforms, t) for t in TXNS]
    # the same unmodified file loaded in first_match mode first, then in most_specific mode (no reset in between)
    R.load_path(path, "first_match")
    from tally.merchant_utils import get_all_rules, get_transforms
    transforms = get_transforms(path, match_mode="most_specific")
    rules = get_all_rules(path, match_mode="most_specific")
    c = [R.normalize_result(rules, transforms, t) for t in TXNS]
    H.reset_state()
    return text, a, b, c


# ---- legacy CSV rule files in most_specific mode: the rules of the alphabet that a CSV row can express
CSV_FORM = {0: "UBER", 4: "UBER[amount>0]", 7: "UBER EATS", 11: "UB", 13: "U", 3: None}


def check_csv(case):
    """The same ranking for a legacy CSV rule file loaded in most_specific mode (every permutation of the expressible rules)."""
    from tally.merchant_utils import get_all_rules, get_transforms
    seq = tuple(case["csv"])
    rows = [{"pattern": CSV_FORM[i], "merchant": RULES[i]["name"], "category": RULES[i]["category"], "subcategory": RULES[i].get("subcategory", ""), "tags": ""}
            for i in seq]
    if len(seq) % 2 == 0:
        # a row whose pattern is not a valid regex never matches; it must not change how the other rows are ranked
        rows.insert(len(rows) // 2, {"pattern": "*BAD(", "merchant": "Bad", "category": "Z", "subcategory": "z", "tags": ""})
    text = R.render_csv(rows)
    path = R.write_scratch("merchant_categories.csv", text)
    H.reset_state()
    rules = get_all_rules(path, match_mode="most_specific")
    transforms = get_transforms(path, match_mode="most_specific")
    tr = [truth(i) for i in seq]
    viol, evals, nontrivial = [], 0, False
    for ti, t in enumerate(TXNS):
        evals += 1
        got = R.normalize_result(rules, transforms, t)
        cands = [(pos, i) for pos, i in enumerate(seq) if tr[pos][ti]]
        if len(cands) >= 2:
            nontrivial = True
        if not cands:
            if got["category"] != "Unknown":
                viol.append({"kind": "categorised-without-true-categorising-rule", "detail": {"entry": "csv most_specific", "txn": t, "got": got, "file": text}})
            continue
        best = max(cands, key=lambda pi: (KEYS[pi[1]], -pi[0]))
        subs = [(pos, i) for pos, i in cands if RULES[i].get("subcategory")]
        exp_sub = RULES[max(subs, key=lambda pi: (KEYS[pi[1]], -pi[0]))[1]]["subcategory"] if subs else ""
        if got["category"] != RULES[best[1]]["category"]:
            viol.append({"kind": "wrong-category-winner", "detail": {"entry": "csv most_specific", "txn": t, "expected_rule": RULES[best[1]]["name"], "got": got, "file": text}})
        elif got["subcategory"] != exp_sub:
            viol.append({"kind": "wrong-subcategory-winner", "detail": {"entry": "csv most_specific", "txn": t, "expected_subcategory": exp_sub, "got": got, "file": text}})
    H.reset_state()
    return {"evals": evals, "nontrivial": 1 if nontrivial else 0, "outcomes": ["csv"], "violations": viol[:10], "sample_repr": {"file": text}}


def check_cli(case):
    """The same legacy CSV rule file in a budget with `rule_mode: most_specific`, classified by the run that migrates it on request
    (`tally up --migrate`): every statement row must get the category of the top-ranked matching row."""
    import json
    import os
    import shutil
    from mc.core import proc
    seq = tuple(case["cli"])
    rows = [{"pattern": CSV_FORM[i], "merchant": RULES[i]["name"], "category": RULES[i]["category"], "subcategory": RULES[i].get("subcategory", ""), "tags": ""}
            for i in seq]
    base = os.path.join(R.scratch(), "c09budget")
    shutil.rmtree(base, ignore_errors=True)
    os.makedirs(os.path.join(base, "config"))
    os.makedirs(os.path.join(base, "data"))
    stmt = [("UBER EATS", 100.25), ("UBER EATS", -50.0), ("UBER TRIP 77", 100.25), ("NETFLIX.COM 123", 100.25)]
    with open(os.path.join(base, "data", "s.csv"), "w") as f:
        f.write("Date,Description,Amount\n" + "".join(f"01/1{k}/2025,{d} ROW{k},{a}\n" for k, (d, a) in enumerate(stmt)))
    with open(os.path.join(base, "config", "settings.yaml"), "w") as f:
        f.write('year: 2025\nrule_mode: most_specific\ndata_sources:\n  - name: S\n    file: data/s.csv\n    format: "{date:%m/%d/%Y},{description},{amount}"\n')
    with open(os.path.join(base, "config", "merchant_categories.csv"), "w") as f:
        f.write(R.render_csv(rows))
    viol = []
    r = proc.run_cli(["up", "--migrate", "--format", "json", "-v"], cwd=base)
    try:
        j = proc.json_document(r["stdout"])
        got = {}
        for m in j["merchants"]:
            for raw in (m.get("raw_descriptions") or {}):
                got[raw] = m["category"]
    except Exception as e:  # noqa
        shutil.rmtree(base, ignore_errors=True)
        return {"evals": 1, "nontrivial": 0, "outcomes": ["cli-no-report"], "violations": [
            {"kind": "migrating-run-produces-no-report", "detail": {"exit": r["exit"], "stderr_tail": r["stderr"][-300:], "exc": str(e)}}], "sample_repr": {"rows": rows}}
    for k, (d, a) in enumerate(stmt):
        t = {"description": f"{d} ROW{k}", "amount": a}
        cands = []
        for pos, i in enumerate(seq):
            import re as _re
            pat, mod = (CSV_FORM[i].split("[")[0], "[" in CSV_FORM[i])
            if _re.search(pat, t["description"], _re.I) and (not mod or a > 0):
                cands.append((pos, i))
        want = RULES[max(cands, key=lambda pi: (KEYS[pi[1]], -pi[0]))[1]]["category"] if cands else "Unknown"
        if got.get(t["description"]) != want:
            viol.append({"kind": "wrong-category-winner", "detail": {"entry": "tally up --migrate (rule_mode: most_specific)", "txn": t, "expected_category": want,
                                                                      "got": got.get(t["description"]), "csv_rows": [r_["pattern"] for r_ in rows]}})
    shutil.rmtree(base, ignore_errors=True)
    return {"evals": len(stmt), "nontrivial": 1, "outcomes": ["cli"], "violations": viol[:6], "sample_repr": {"rows": [r_["pattern"] for r_ in rows]}}


def check_case(case):
    if isinstance(case, dict) and "cli" in case:
        return check_cli(case)
    if isinstance(case, dict):
        return check_csv(case)
    seq = tuple(case)
    text, a, b, c = results(seq)
    tr = [truth(i) for i in seq]
    viol, outcomes, nontrivial, evals = [], set(), False, 0
    for ti, t in enumerate(TXNS):
        cands = [(pos, i) for pos, i in enumerate(seq) if tr[pos][ti] and RULES[i].get("category")]
        if len(cands) >= 2:
            nontrivial = True
        exp_cat = exp_rule = None
        exp_sub = ""
        if cands:
            # max by key, exact ties to the earlier rule
            best = max(cands, key=lambda pi: (KEYS[pi[1]], -pi[0]))
            exp_cat, exp_rule = RULES[best[1]]["category"], RULES[best[1]]["name"]
            subs = [(pos, i) for pos, i in cands if RULES[i].get("subcategory")]
            if subs:
                bs = max(subs, key=lambda pi: (KEYS[pi[1]], -pi[0]))
                exp_sub = RULES[bs[1]]["subcategory"]
        exp_tags = set()
        for pos, i in enumerate(seq):
            if tr[pos][ti] and RULES[i].get("tags"):
                exp_tags.add(RULES[i]["tags"])
        outcomes.add(f"{exp_rule}/{exp_sub}")
        for ep, res in (("engine", a), ("normalize", b), ("normalize-after-first_match-load", c)):
            evals += 1
            got = res[ti]
            sub = {"entry": ep, "txn": t}
            if exp_cat is None:
                ok = (not got["matched"]) if ep == "engine" else got["category"] == "Unknown"
                if not ok:
                    viol.append({"kind": "categorised-without-true-categorising-rule", "detail": {**sub, "got": got}})
                continue
            if got["category"] != exp_cat or (ep == "engine" and got["rule"] != exp_rule):
                viol.append({"kind": "wrong-category-winner", "detail": {**sub, "expected_rule": exp_rule, "expected_category": exp_cat, "got": got,
                                                                          "candidates": [(RULES[i]["name"], KEYS[i]) for _, i in cands]}})
            if got["subcategory"] != exp_sub:
                viol.append({"kind": "wrong-subcategory-winner", "detail": {**sub, "expected_subcategory": exp_sub, "got": got,
                                                                             "candidates": [(RULES[i]["name"], KEYS[i], RULES[i].get("subcategory", "")) for _, i in cands]}})
            if set(got["tags"]) != exp_tags:
                viol.append({"kind": "tags-not-union", "detail": {**sub, "expected": sorted(exp_tags), "got": got["tags"]}})
    return {"evals": evals, "nontrivial": 1 if nontrivial else 0, "outcomes": sorted(outcomes)[:8], "violations": viol[:30],
            "sample_repr": {"file": text}}
