"""C19 - every rule that discover suggests matches the transaction it was suggested for.

Exhaustive: every sequence of <= K tokens over a 24-token alphabet (words, domains, regex metacharacters,
quotes, backslash, store numbers, zip codes, state suffixes, non-ASCII), joined by one or two blanks, with
every processor prefix.  For each description the real suggestion functions build the rule text; the real
loader must accept it and the resulting engine must match a transaction with that very description.
A second family of cases runs `tally discover --format json` end to end on small budgets, appends the
suggested rules and checks that the Unknown list strictly shrinks.
"""
import itertools
import json
import os
import shutil

from mc.core import harness as H
from mc.core import proc
from mc.checks import rules_common as R

PROPERTY = "C19"
LEVEL = "exploration"
RULE = ("cases = every sequence of 1..4 tokens over 30 tokens (thorough adds every 5-token sequence over the first 18) (WHOLE, FOODS, netflix.com, C++, (X), AT&T, O'REILLY, "
        "SAY\"HI\", X\\Y, #12, 1234, 98101, WA, A*B, [Z], $5, Café, a|b, 16\", #B4, PIE#2, WWW.SOUTHWESTAIRLINES.COM, INTERNATIONAL, A.B.C.D.E.F) joined by single blanks (plus the double-blank variant for 2-token "
        "descriptions) x 6 prefixes (none, APLPAY, SQ *, TST*, PP*, GOOGLE *); plus end-to-end discover->append->discover runs on statements of "
        "6 descriptions each. non-trivial = description with >=2 tokens or any non-alphanumeric character; descriptions distinct by construction")
ASSUMPTIONS = ["the suggested rule is made usable by replacing the CATEGORY/SUBCATEGORY placeholders, nothing else",
               "descriptions are non-empty after stripping (the CSV reader never yields empty ones)"]

TOKENS = ["WHOLE", "FOODS", "netflix.com", "C++", "(X)", "AT&T", "O'REILLY", 'SAY"HI"', "X\\Y", "#12", "1234", "98101", "WA", "A*B",
          "[Z]", "$5", "Café", "a|b", '16"', "#B4", "PIE#2", "WWW.SOUTHWESTAIRLINES.COM", "INTERNATIONAL", "A.B.C.D.E.F",
          # characters whose upper-case form is longer than one character
          "Straße", "ﬁn",
          # a processor prefix in the middle of a word / name; a base letter followed by a combining mark
          "APP*JOHN", "WASP", "CAFE\u0301",
          # a description cell may hold a line break (quoted CSV cell)
          "TWO\nLINES"]
PREFIXES = ["", "APLPAY ", "SQ *", "TST*", "PP*", "GOOGLE *"]


def bounds(tier):
    return {"max_tokens": 4 if tier == "quick" else "4 over all tokens, 5 over the 18 core tokens", "tokens": len(TOKENS), "prefixes": len(PREFIXES)}


CORE_TOKENS = list(range(18))      # the tokens the first build used; 5-token descriptions are enumerated over these


def gen_cases(tier):
    # every description of <= 4 tokens over the whole alphabet; thorough adds every 5-token description over the 18 core tokens
    for n in range(1, 5):
        for seq in itertools.product(range(len(TOKENS)), repeat=n):
            yield {"kind": "unit", "tokens": list(seq)}
    if tier == "thorough":
        for seq in itertools.product(CORE_TOKENS, repeat=5):
            yield {"kind": "unit", "tokens": list(seq)}
    # long descriptions: a metacharacter at EVERY offset 1..70, so any length-dependent treatment of the pattern is exercised
    for n in range(1, 71):
        yield {"kind": "long", "n": n}
    # end-to-end: statements of 6 descriptions taken round-robin from the 2-token descriptions
    two = [f"{a} {b}" for a in TOKENS[:18] for b in TOKENS[:18]]
    chunks = [two[i:i + 6] for i in range(0, len(two), 6)]
    for i, ch in enumerate(chunks):
        if tier == "thorough" or i % 3 == 0:
            yield {"kind": "e2e", "descriptions": ch}
    # unknown descriptions that get the SAME suggested merchant name (two rule blocks with one name), also colliding with an existing rule's name
    yield {"kind": "e2e", "descriptions": ["ACME CORP DES:PAYROLL ID:99", "ACME CORP ID:4471 WEB", "KNOWN 0123", "A*B FOODS", "A B FOODS", "TWO\nLINES SHOP"]}


def descriptions_for(tokens):
    words = [TOKENS[i] for i in tokens]
    base = [" ".join(words)]
    if len(words) == 2:
        base.append("  ".join(words))
    return [p + b for b in base for p in PREFIXES]


def check_description(d):
    """Returns a violation detail or None."""
    from tally.commands.discover import suggest_pattern, suggest_merchant_name, suggest_merchants_rule
    from tally.merchant_engine import parse_merchants, MerchantParseError
    try:
        rule_text = suggest_merchants_rule(suggest_merchant_name(d), suggest_pattern(d))
    except Exception as e:  # noqa
        return "suggestion-raises", {"description": d, "exc": f"{type(e).__name__}: {e}"}
    usable = rule_text.replace("category: CATEGORY", "category: Cat").replace("subcategory: SUBCATEGORY", "subcategory: Sub")
    try:
        eng = parse_merchants(usable)
    except Exception as e:  # noqa
        return "suggested-rule-rejected-by-loader", {"description": d, "rule": rule_text, "exc": f"{type(e).__name__}: {e}"}
    if len(eng.rules) != 1:
        return "suggested-rule-rejected-by-loader", {"description": d, "rule": rule_text, "rules_loaded": len(eng.rules)}
    try:
        r = eng.match({"description": d, "amount": 12.5})
    except Exception as e:  # noqa
        return "suggested-rule-does-not-match", {"description": d, "rule": rule_text, "exc": f"{type(e).__name__}: {e}"}
    if not r.matched:
        return "suggested-rule-does-not-match", {"description": d, "rule": rule_text}
    return None


def check_unit(case):
    viol, evals, nontrivial = [], 0, 0
    outcomes = set()
    for d in descriptions_for(case["tokens"]):
        evals += 1
        if len(case["tokens"]) >= 2 or not d.isalnum():
            nontrivial += 1
        res = check_description(d)
        if res:
            viol.append({"kind": res[0], "detail": res[1], "case": {"kind": "desc", "description": d}})
            outcomes.add(res[0])
        else:
            outcomes.add("ok")
    return {"evals": evals, "nontrivial": nontrivial, "outcomes": sorted(outcomes), "violations": viol,
            "sample_repr": {"descriptions": descriptions_for(case["tokens"])[:3]}}


def _run_discover(budget):
    r = proc.run_cli(["discover", "--format", "json", "--limit", "0"], cwd=budget)
    if r["exit"] != 0:
        return r, None
    try:
        return r, json.loads(r["stdout"])
    except Exception:
        return r, None


def check_e2e(case):
    base = os.path.join(R.scratch(), "e2e")
    shutil.rmtree(base, ignore_errors=True)
    os.makedirs(os.path.join(base, "config"))
    os.makedirs(os.path.join(base, "data"))
    descs = case["descriptions"]
    with open(os.path.join(base, "data", "s.csv"), "w", encoding="utf-8", newline="") as f:
        f.write("Date,Description,Amount\n")
        for i, d in enumerate(descs):
            f.write(f"01/{10 + i}/2025,{R.csv_quote(d)},{10 + i}.50\n")
        f.write('01/20/2025,KNOWN SHOP,5.00\n')
        if descs:
            # the first description occurs again as a refund (one description, both signs)
            f.write(f"01/25/2025,{R.csv_quote(descs[0])},-3.25\n")
    with open(os.path.join(base, "config", "settings.yaml"), "w", encoding="utf-8") as f:
        f.write('year: 2025\nmerchants_file: config/merchants.rules\ndata_sources:\n  - name: S\n    file: data/s.csv\n'
                '    format: "{date:%m/%d/%Y},{description},{amount}"\n')
    rules_path = os.path.join(base, "config", "merchants.rules")
    with open(rules_path, "w", encoding="utf-8") as f:
        f.write('[Known]\nmatch: contains("KNOWN SHOP")\ncategory: Known\n')
    viol = []
    r1, out1 = _run_discover(base)
    if out1 is None:
        return {"evals": 1, "nontrivial": 1, "outcomes": ["discover-failed"],
                "violations": [{"kind": "discover-failed", "detail": {"exit": r1["exit"], "stderr": r1["stderr"][-400:], "stdout": r1["stdout"][-300:]}}]}
    listed = {e["raw_description"] for e in out1}
    expected = {d.strip() for d in descs}
    if listed != expected:
        viol.append({"kind": "discover-lists-wrong-unknowns", "detail": {"listed": sorted(listed), "expected": sorted(expected)}})
    with open(rules_path, "a", encoding="utf-8") as f:
        for e in out1:
            f.write("\n" + e["suggested_rule"].replace("category: CATEGORY", "category: Cat").replace("subcategory: SUBCATEGORY", "subcategory: Sub") + "\n")
    r2, out2 = _run_discover(base)
    n_before = sum(e["count"] for e in out1)
    if out2 is None:
        if "No unknown transactions" in r2["stdout"]:
            n_after = 0
        else:
            viol.append({"kind": "discover-after-append-failed", "detail": {"exit": r2["exit"], "stderr": r2["stderr"][-400:], "stdout": r2["stdout"][-300:],
                                                                           "rules": open(rules_path, encoding="utf-8").read()[-600:]}})
            n_after = None
    else:
        n_after = sum(e["count"] for e in out2)
    if n_after is not None and not (n_after < n_before):
        viol.append({"kind": "unknown-list-did-not-shrink", "detail": {"before": n_before, "after": n_after}})
    if n_after not in (None, 0):
        viol.append({"kind": "suggested-rules-leave-unknowns", "detail": {"still_unknown": [e["raw_description"] for e in out2]}})
    shutil.rmtree(base, ignore_errors=True)
    return {"evals": 2, "nontrivial": 1, "outcomes": [f"before={n_before} after={n_after}"], "violations": viol,
            "sample_repr": {"e2e_descriptions": descs}}


def long_descriptions(n):
    out = []
    for ch in (".", "*", "$", "(", "+", "\\", '"'):
        out += ["A" * n + ch + "COM PAYMENT CENTER", "AB " + "C" * n + ch + "D EF", "A" * (n // 2) + " " + "B" * (n - n // 2) + ch + " CD"]
    return out


def check_case(case):
    if case.get("kind") == "long":
        viol, evals = [], 0
        for d in long_descriptions(case["n"]):
            evals += 1
            res = check_description(d)
            if res:
                viol.append({"kind": res[0], "detail": res[1], "case": {"kind": "desc", "description": d}})
        return {"evals": evals, "nontrivial": evals, "outcomes": ["long-ok" if not viol else "long-bad"], "violations": viol,
                "sample_repr": {"long_descriptions": long_descriptions(case["n"])[:2]}}
    if case.get("kind") == "desc":
        res = check_description(case["description"])
        return {"evals": 1, "nontrivial": 1, "outcomes": [],
                "violations": [{"kind": res[0], "detail": res[1]}] if res else []}
    if case["kind"] == "unit":
        return check_unit(case)
    return check_e2e(case)
