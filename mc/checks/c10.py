"""C10 - a merchant appears in a view exactly when the view's filter is true of it.

Exhaustive: every views file made of 1..K views over a 33-filter alphabet (documented primitives, aggregates,
by(month|year|week|day), period(), max_val, a global variable, a view-local variable shadowing a global, an
unevaluable filter, `true`) x every set of 1..3 merchants over 15 payment histories (single payment, same
month different days, same day, equal months, varied months, refund, same month number in two years, income /
transfer / investment tags in three letter cases, a recurring-tagged one, a zero-total one, a net-refund one with negative mean), driven through the
real chain analyze_transactions -> classify_by_sections -> compute_section_totals.  Membership is compared with
primitives recomputed from the raw transactions (real dates) by mc/ref/views.py.  Transition oracles: a view's
membership is the same whatever other views are present and in whatever order (compared with the one-view
file); each view's total equals the sum of its members' totals.
"""
import datetime as dt
import functools
import itertools

from mc.core import harness as H
from mc.ref import views as RV
from mc.ref import money

PROPERTY = "C10"
LEVEL = "exploration"
RULE = ("cases = every sequence of 1..K distinct views (K=2 quick; thorough: K=2 over all 33 filters plus K=3 over a 10-filter sub-alphabet) x every set of 1..2 merchants plus the triples over the first seven histories (quick) / every set of 1..3 (thorough) "
        "over 15 payment histories; each case runs the real analyse/classify chain once and judges every (view, merchant) pair. "
        "non-trivial = (view, merchant) pairs whose filter is evaluable and that are members of some but not all views of the file; cases distinct by construction")
ASSUMPTIONS = ["payments / total / months / cv / by() are recomputed from the raw transactions with their real dates; cv is the population coefficient of variation of monthly totals",
               "not judged: cv when the mean monthly total is 0; by(\"week\") across a year boundary (%W vs ISO); two views with the same name",
               "period(\"month\"/\"year\") counts the months/years in which merchants that can appear in views (not tagged income/transfer/investment) have payments"]

D = dt.datetime
HIST = [
    ("One", "Food", "Grocery", ["x"], [(D(2025, 1, 10), 50.0)]),
    ("TwoDays", "Food", "Cafe", [], [(D(2025, 1, 3), 30.0), (D(2025, 1, 20), 40.0)]),
    ("SameDay", "Bills", "Power", ["recurring"], [(D(2025, 1, 5), 10.0), (D(2025, 1, 5), 15.0)]),
    ("Equal", "Bills", "Rent", ["Recurring"], [(D(2025, 1, 10), 100.0), (D(2025, 2, 10), 100.0)]),
    ("Varied", "Shopping", "x", [], [(D(2025, 1, 10), 100.0), (D(2025, 2, 10), 200.0), (D(2025, 3, 10), 300.0)]),
    ("Refund", "Shopping", "Online", ["a"], [(D(2025, 1, 10), 120.0), (D(2025, 1, 15), -20.0), (D(2025, 2, 10), 60.0)]),
    ("TwoYears", "Food", "Grocery", [], [(D(2024, 3, 10), 80.0), (D(2025, 3, 10), 90.0)]),
    ("Salary", "Income", "Pay", ["Income"], [(D(2025, 1, 31), -2000.0), (D(2025, 4, 30), -2000.0)]),
    ("Move", "Finance", "Xfer", ["TRANSFER"], [(D(2025, 2, 1), 500.0)]),
    ("Invest", "Finance", "401k", ["InVestment", "recurring"], [(D(2025, 1, 1), 300.0)]),
    ("Club", "food", "Grocery", ["recurring", "b"], [(D(2025, 1, 7), 20.0), (D(2025, 2, 7), 20.0), (D(2025, 3, 7), 22.0)]),
    ("Zero", "Bills", "Power", [], [(D(2025, 1, 9), 50.0), (D(2025, 2, 9), -50.0)]),
    ("NetRefund", "Shopping", "Returns", [], [(D(2025, 1, 9), -30.0), (D(2025, 2, 9), -10.0)]),     # negative mean: cv = -0.5
    # a payment on 29 February (its day must stay the 29th), one on the 15th of the same month, four months in all
    ("Leap", "Food", "Cafe", [], [(D(2024, 2, 29), 120.0), (D(2024, 2, 15), 15.0), (D(2024, 3, 1), 5.0), (D(2024, 4, 2), 5.0), (D(2024, 5, 3), 5.0)]),
    # twelve equal payments whose amount is not a binary fraction (their standard deviation is exactly 0)
    ("Fixed", "Subs", "Stream", [], [(D(2025, m, 5), 15.99) for m in range(1, 13)]),
]

PREAMBLE = "thresh = 100\nbig = total > thresh\n\n"
FILTERS = [  # (name, local variable lines, filter)
    ("Months2", [], "months >= 2"), ("Over100", [], "total > 100"), ("Steady", [], "cv < 0.3"), ("Flat", [], "cv == 0"), ("NegCv", [], "cv < 0"),
    ("FoodCat", [], 'category == "food"'), ("NotX", [], 'subcategory != "x"'), ("Rec", [], '"Recurring" in tags'), ("SumP", [], "sum(payments) > 100"),
    ("Count2", [], "count(payments) >= 2"), ("Avg50", [], "avg(payments) > 50"), ("Max90", [], "max(payments) > 90"), ("Neg", [], "min(payments) < 0"),
    ("PeakMonth", [], 'max(sum(by("month"))) > 100'), ("BusyDay", [], 'max(count(by("day"))) >= 2'), ("Weeks2", [], 'count(sum(by("week"))) >= 2'),
    ("OneYear", [], 'count(sum(by("year"))) == 1'), ("AllMonths", [], 'months >= period("month")'), ("HalfPeriod", [], 'months >= max_val(2, period("month") * 0.5)'),
    ("GlobalVar", [], "big"), ("LocalShadow", ["thresh = 1000"], "total > thresh"), ("Broken", [], 'total > "x"'), ("Everything", [], "true"),
    ("UsesGlobal", [], "total > thresh and months >= 1"),
    # chained comparisons: a < b < c means (a < b) and (b < c)
    ("ChainTotal", [], "50 < total < 250"), ("ChainDown", [], "thresh >= total > 20"), ("ChainMonths", [], "2 <= months <= 3"),
    ("PeakDay", [], 'max(sum(by("day"))) > 100'),
    # spread of the payments (thresholds far from any borderline value); period() read through a view-local variable
    ("Stable", [], "count(payments) >= 2 and stddev(payments) < 1"), ("Spread", [], "stddev(payments) > 50"),
    # the same filter text and the same view-local variable NAME as LocalShadow, bound to another value: each view reads its own
    ("LocalShadow2", ["thresh = 150"], "total > thresh"),
    ("LocalPeriod", ['p = period("month")'], "months >= p"), ("LocalHalf", ['half = period("month") * 0.5'], "months > half"),
]
SUB10 = [0, 2, 4, 7, 13, 14, 17, 19, 20, 21]


def views_text(seq):
    out = [PREAMBLE]
    for i in seq:
        name, loc, flt = FILTERS[i]
        out.append(f"[{name}]\n" + "".join(l + "\n" for l in loc) + f"filter: {flt}\n\n")
    return "".join(out)


def bounds(tier):
    return {"filters": len(FILTERS), "histories": len(HIST), "max_views_per_file": 2 if tier == "quick" else "2 over all, 3 over a 10-filter sub-alphabet",
            "max_merchants": 3,
            "merchant_sets": len(MERCHANT_SETS if tier == "thorough" else _QUICK_SETS)}


def gen_cases(tier):
    seqs = []
    for n in (1, 2):
        seqs += list(itertools.permutations(range(len(FILTERS)), n))
    if tier == "thorough":
        seqs += list(itertools.permutations(SUB10, 3))
    for seq in seqs:
        yield {"views": list(seq)}
    yield {"cli": True}


MERCHANT_SETS = [c for n in (1, 2, 3) for c in itertools.combinations(range(len(HIST)), n)]
# quick tier: every set of 1..2 merchants, plus the triples drawn from the first seven histories (thorough: every set of 1..3)
_QUICK_SETS = [c for c in MERCHANT_SETS if len(c) <= 2 or max(c) < 7]
_TIER = "quick"


def setup(tier):
    global _TIER
    _TIER = tier


def raw_txns(mset):
    out = []
    for i in mset:
        name, cat, sub, tags, pays = HIST[i]
        for d, a in pays:
            out.append({"merchant": name, "category": cat, "subcategory": sub, "tags": list(tags), "amount": a, "date": d,
                        "description": name, "raw_description": name.upper(), "source": "S"})
    return out


@functools.lru_cache(maxsize=None)
def reference_membership(fi, mset):
    """Expected members of a view with filter FILTERS[fi] among merchant set mset (names), or None per merchant when not judged."""
    name, loc, flt = FILTERS[fi]
    txns = raw_txns(mset)
    shown = [i for i in mset if not money.excluded(HIST[i][3])]
    months = {(d.year, d.month) for i in shown for d, _ in HIST[i][4]}
    years = {d.year for i in shown for d, _ in HIST[i][4]}
    n_all_months = len({(t["date"].year, t["date"].month) for t in txns})
    period = {"month": len(months) if months else n_all_months, "year": len(years) if years else 1}
    res = {}
    for i in shown:
        mt = [dict(t, amount=t["amount"]) for t in txns if t["merchant"] == HIST[i][0]]
        try:
            g = RV.eval_variables({"thresh": "100", "big": "total > thresh"}, mt, {}, period)
            v = RV.eval_variables(dict(l.split(" = ", 1) for l in loc), mt, g, period) if loc else g
            if any(x is None for x in v.values()) and False:
                pass
            res[HIST[i][0]] = bool(RV.evaluate(flt, mt, v, period))
        except RV.RefError as e:
            if "undefined" in str(e):
                res[HIST[i][0]] = None        # not judged
            else:
                res[HIST[i][0]] = False
        except Exception:  # noqa
            res[HIST[i][0]] = False            # unevaluable filter -> not a member
    return res


def real_membership(text, mset):
    from tally.section_engine import parse_sections
    from tally.analyzer import analyze_transactions, classify_by_sections, compute_section_totals
    H.reset_state()
    cfg = parse_sections(text)
    stats = analyze_transactions(raw_txns(mset))
    res = classify_by_sections(stats["by_merchant"], cfg, stats["num_months"])
    totals = {k: compute_section_totals(v) for k, v in res.items()}
    return ({k: sorted(m for m, _ in v) for k, v in res.items()},
            {k: (t["total"], sum(d.get("total", 0) for _, d in res[k])) for k, t in totals.items()},
            {m: d.get("total", 0) for m, d in stats["by_merchant"].items()})


@functools.lru_cache(maxsize=None)
def single_view_membership(fi, mset):
    try:
        return real_membership(views_text((fi,)), mset)[0].get(FILTERS[fi][0])
    except Exception as e:  # noqa
        return f"EXC {type(e).__name__}"


def check_cli(case):
    """View membership as `tally explain --view V` reports it, alone and combined with --category, against the membership `tally up`
    puts into its report (a merchant is in a view whatever other filters narrow the listing)."""
    import html.parser
    import json
    import os
    import shutil
    from mc.core import proc
    from mc.checks import rules_common as R
    base = os.path.join(R.scratch(), "c10cli")
    shutil.rmtree(base, ignore_errors=True)
    os.makedirs(os.path.join(base, "config"))
    os.makedirs(os.path.join(base, "data"))
    rows = ["Date,Description,Amount"]
    for m in range(1, 7):
        rows += [f"{m:02d}/05/2025,POWERCO AUTOPAY,{80 + m}.00", f"{m:02d}/09/2025,WATERCO AUTOPAY,30.00"]
    for m in (1, 2, 3, 4):
        rows.append(f"{m:02d}/12/2025,CORNER CAFE #12,6.50")
    for m in (1, 2):
        rows.append(f"{m:02d}/20/2025,NOODLE BAR DOWNTOWN,23.40")
    with open(os.path.join(base, "data", "card.csv"), "w") as f:
        f.write("\n".join(rows) + "\n")
    cats = {"Power Co": "Bills", "Water Co": "Bills", "Corner Cafe": "Food", "Noodle Bar": "Food"}
    with open(os.path.join(base, "config", "merchants.rules"), "w") as f:
        for name, pat in (("Power Co", "POWERCO"), ("Water Co", "WATERCO"), ("Corner Cafe", "CORNER CAFE"), ("Noodle Bar", "NOODLE BAR")):
            f.write(f'[{name}]\nmatch: contains("{pat}")\ncategory: {cats[name]}\nsubcategory: X\n\n')
    with open(os.path.join(base, "config", "views.rules"), "w") as f:
        f.write('half = period("month") * 0.5\n\n[Regular]\nfilter: months >= period("month") * 0.5\n\n[Rare]\nfilter: months < half\n\n[Big]\nfilter: total > 100\n\n[Everything]\nfilter: true\n')
    with open(os.path.join(base, "config", "settings.yaml"), "w") as f:
        f.write('year: 2025\nmerchants_file: config/merchants.rules\nviews_file: config/views.rules\ndata_sources:\n  - name: Card\n    file: data/card.csv\n'
                '    format: "{date:%m/%d/%Y},{description},{amount}"\n')
    viol, evals = [], 0
    r = proc.run_cli(["up", "--quiet"], cwd=base)
    hp = os.path.join(base, "output", "spending_summary.html")
    members = None
    if r["exit"] == 0 and os.path.exists(hp):
        class P(html.parser.HTMLParser):
            def __init__(self):
                super().__init__()
                self.s, self.on, self.buf = [], False, []
            def handle_starttag(self, tag, attrs):
                if tag == "script":
                    self.on, self.buf = True, []
            def handle_endtag(self, tag):
                if tag == "script" and self.on:
                    self.s.append("".join(self.buf)); self.on = False
            def handle_data(self, d):
                if self.on:
                    self.buf.append(d)
        p = P(); p.feed(open(hp, encoding="utf-8").read())
        sc = [x for x in p.s if "window.spendingData = " in x]
        try:
            data = json.loads(sc[0][sc[0].index("window.spendingData = ") + 22:].strip().rstrip(";"))
            members = {s["title"]: {m["displayName"] for m in s["merchants"].values()} for s in data["sections"].values()}
        except Exception:  # noqa
            members = None
    if members is None:
        shutil.rmtree(base, ignore_errors=True)
        return {"evals": 1, "nontrivial": 0, "outcomes": ["cli-no-report"], "violations": [
            {"kind": "report-without-views", "detail": {"exit": r["exit"], "stderr_tail": r["stderr"][-300:]}}], "sample_repr": {"cli": True}}
    # the reference primitives say the same (4 of 6 months: Regular = Power, Water, Corner Cafe; Rare = Noodle Bar)
    want_ref = {"Regular": {"Power Co", "Water Co", "Corner Cafe"}, "Rare": {"Noodle Bar"}, "Big": {"Power Co", "Water Co"}, "Everything": set(cats)}
    for v, want in want_ref.items():
        evals += 1
        if members.get(v, set()) != want:
            viol.append({"kind": "membership-differs-from-reference", "detail": {"entry": "tally up (HTML data)", "view": v, "expected": sorted(want), "got": sorted(members.get(v, []))}})
    for v in want_ref:
        for extra, keep in (([], None), (["--category", "Food"], "Food"), (["--category", "Bills"], "Bills")):
            evals += 1
            e = proc.run_cli(["explain", "--view", v, "--format", "json"] + extra, cwd=base)
            try:
                got = {m["name"] for m in proc.json_document(e["stdout"])["merchants"]} if "{" in e["stdout"] else set()
            except Exception as ex:  # noqa
                got = f"unreadable explain output: {ex}"
            want = {m for m in want_ref[v] if keep is None or cats[m] == keep}
            if got != want:
                viol.append({"kind": "membership-differs-from-reference", "detail": {"entry": "tally explain --view " + v + " " + " ".join(extra), "expected": sorted(want),
                                                                                      "got": sorted(got) if isinstance(got, set) else got}})
    shutil.rmtree(base, ignore_errors=True)
    return {"evals": evals, "nontrivial": evals, "outcomes": ["cli-views"], "violations": viol[:8], "sample_repr": {"cli": True}}


def check_case(case):
    if case.get("cli"):
        return check_cli(case)
    seq = tuple(case["views"])
    text = views_text(seq)
    viol, evals, nontrivial = [], 0, 0
    outcomes = set()
    msets = (MERCHANT_SETS if _TIER == "thorough" else _QUICK_SETS) if case.get("merchants") is None else [tuple(case["merchants"])]
    for mset in msets:
        sub = {"views": list(seq), "merchants": list(mset)}
        try:
            mem, totals, mtot = real_membership(text, mset)
        except Exception as e:  # noqa
            evals += 1
            viol.append({"kind": "classification-raises", "detail": {"views_file": text, "merchants": [HIST[i][0] for i in mset], "exc": f"{type(e).__name__}: {e}"}, "case": sub})
            continue
        counts = {}
        for fi in seq:
            vname = FILTERS[fi][0]
            exp = reference_membership(fi, mset)
            got = set(mem.get(vname, []))
            for m, want in exp.items():
                if want is None:
                    continue
                evals += 1                      # one judged (view, merchant) pair
                counts[m] = counts.get(m, 0) + (1 if m in got else 0)
                if (m in got) != want:
                    viol.append({"kind": "membership-differs-from-filter", "detail": {"view": vname, "filter": FILTERS[fi][2], "merchant": m, "expected_member": want,
                                                                                        "is_member": m in got, "merchants": [HIST[i][0] for i in mset]}, "case": sub})
            for m in got - set(exp):
                viol.append({"kind": "excluded-merchant-in-view", "detail": {"view": vname, "merchant": m}, "case": sub})
            # independence: same membership as when the view stands alone
            alone = single_view_membership(fi, mset)
            judged = {m for m, w in exp.items() if w is not None}
            if isinstance(alone, list) and (set(alone) & judged) != (got & judged):
                viol.append({"kind": "view-membership-depends-on-other-views", "detail": {"view": vname, "alone": alone, "in_this_file": sorted(got), "views_file": text},
                             "case": sub})
            # totals
            t_reported, t_members = totals[vname]
            if abs(t_reported - sum(mtot[m] for m in got)) > 1e-9:
                viol.append({"kind": "view-total-not-sum-of-members", "detail": {"view": vname, "reported": t_reported, "members": sorted(got)}, "case": sub})
            outcomes.add(f"{len(got)}members")
        nontrivial += sum(1 for m, c in counts.items() if 0 < c < len(seq))
        if len(viol) > 30:
            break
    return {"evals": evals, "nontrivial": nontrivial, "outcomes": sorted(outcomes), "violations": viol[:30],
            "sample_repr": {"views_file": text, "merchant_sets": len(msets)}}
