"""C12 - HTML, JSON, Markdown and text outputs all render and carry the same data.

Exhaustive: every set of <= K transactions over a 27-transaction alphabet (merchant names that differ only in
quotes, spaces or underscores; descriptions containing </script>, quotes, backslashes, the template
placeholders, braces, non-ASCII; refunds, income with negative amount, transfers in/out, investment, a merchant
netting to zero; extra fields) x {no views, views} is analysed by the real analyze_transactions and rendered by
every output: HTML embedded, HTML with separate files, JSON (verbosity 0-2), Markdown (0-2), text summary, views
summary.  Every renderer must return; each printed income / spending / credits / transfers / cash-flow figure
must equal the analysed figure formatted at that format's precision; the HTML, parsed with html.parser, must
yield a script whose `window.spendingData = ...;` payload is valid JSON in which every analysed merchant and
every analysed transaction appears exactly once with the same description, amount, month, tags, source and
extra fields, and whose per-category sums add up to the analysed totals.
"""
import contextlib
import datetime as dt
import html.parser
import io
import itertools
import json
import os
import re
import shutil

from mc.core import harness as H
from mc.checks import rules_common as R
from mc.ref import money

PROPERTY = "C12"
LEVEL = "exploration"
RULE = ("cases = every subset of 1..K transactions (K=3 quick, 4 thorough) of a 27-transaction alphabet x {without views, with two views}; each case "
        "renders 11 outputs (2 HTML modes, JSON x3, Markdown x3 verbosities, text summary, views summary, plus the separate data file). "
        "non-trivial = subsets with >=2 merchants whose derived ids collide, or with a description containing markup / placeholder text, or mixing "
        ">=2 money buckets; subsets are distinct by construction")
ASSUMPTIONS = ["HTML is parsed with html.parser (not a browser); the data payload is the text after 'window.spendingData = ' up to the last ';' of that script element",
               "printed figures are compared as strings produced by formatting the analysed figure with the same precision (never by parsing and rounding)",
               "JSON is judged on income_total, credits_total and net_cash_flow (when not null); its other summary keys are not mapped to an analysed figure"]

D = dt.datetime
FOOD, BILLS = ("Food", "Grocery"), ("Bills", "Power")
ALPHA = [
    ("A B", "x", 100.0, [], D(2025, 1, 5), FOOD, None),
    ("A_B", "a </script><b>", 0.25, ["x"], D(2025, 1, 6), FOOD, None),
    ("A'B", '\\" \\\\ \'', 100.0, [], D(2025, 2, 5), BILLS, {"k": "v"}),
    ('A"B', "/* JS_PLACEHOLDER */", 0.25, [], D(2025, 1, 7), BILLS, None),
    ("AB", "/* DATA_PLACEHOLDER */ /* CSS_PLACEHOLDER */", -20.5, [], D(2025, 2, 6), FOOD, None),
    ("Ünï", "日本 {amount}", 100.0, ["x"], D(2025, 1, 8), FOOD, None),
    ("A B", "refund x", -20.5, [], D(2025, 2, 9), FOOD, None),
    ("Pay", "SALARY", -100.0, ["income"], D(2025, 1, 31), ("Income", "Salary"), None),
    ("Move", "XFER OUT", -20.5, ["transfer"], D(2025, 1, 12), ("Finance", "Xfer"), None),
    ("Move", "XFER IN", 100.0, ["Transfer"], D(2025, 2, 12), ("Finance", "Xfer"), None),
    ("Inv", "401K", 100.0, ["investment"], D(2025, 1, 15), ("Finance", "401k"), None),
    ("Ünï", "x", 0.25, [], D(2025, 2, 8), FOOD, {"k": "</script>", "n": 5}),
    ("Zero", "zero net", 100.0, [], D(2025, 1, 20), BILLS, None),
    ("Zero", "zero net back", -100.0, [], D(2025, 2, 20), BILLS, None),
    # one merchant whose transactions carry different special tags
    ("Mix", "mixed transfer", 40.0, ["transfer"], D(2025, 1, 21), BILLS, None),
    ("Mix", "mixed plain", 60.0, [], D(2025, 2, 21), BILLS, None),
    # a name that equals the id a look-alike of "A B" / "A_B" gets once it is suffixed
    ("A B 2", "third look-alike", 7.25, [], D(2025, 1, 9), FOOD, None),
    # transactions carrying two special tags (precedence income > investment > transfer must be the same everywhere)
    ("Dual", "income+investment", -40.0, ["income", "investment"], D(2025, 1, 22), ("Finance", "Dual"), None),
    ("Dual2", "investment+transfer", 60.0, ["Transfer", "Investment"], D(2025, 2, 22), ("Finance", "Dual"), None),
    # closing script tags in other letter cases / with blanks, and an HTML comment opener
    ("Shop", "WEB </SCRIPT> x </Script > <!-- y", 7.25, ["</ScRiPt>"], D(2025, 1, 23), FOOD, {"k": "</SCRIPT\n>"}),
    # one merchant spanning two categories whose own total is negative while one of its categories is positive
    # extra field values that are falsy, or not JSON-native (a date from `field: when = date`)
    ("Fld", "falsy fields", 12.25, [], D(2025, 1, 25), FOOD, {"z": 0, "f": False, "e": "", "when": dt.date(2025, 1, 25)}),
    ("Span", "prime charge", 40.0, [], D(2025, 1, 24), FOOD, None),
    ("Span", "big refund", -100.0, [], D(2025, 2, 24), BILLS, None),
    # amounts with three decimals (currencies with a 1/1000 unit, fuel prices): they are analysed, listed and summed as they are
    ("Kwd", "three decimals", 4.504, [], D(2025, 1, 26), FOOD, None),
    ("Kwd", "three decimals again", 7.003, [], D(2025, 2, 26), FOOD, None),
    # what classification hands over for a transaction no categorising rule matched: tagged by a tag-only rule (match record without a
    # pattern) and not matched at all (no match record)
    ("Mystery", "UNMATCHED BIG", 612.5, ["large"], D(2025, 1, 27), ("Unknown", "Unknown"), None),
    ("Riddle", "UNMATCHED PLAIN", 3.5, [], D(2025, 2, 27), ("Unknown", "Unknown"), None),
]
# match records of the two unmatched entries, as merchant_utils builds them
MATCH_INFO = {"Mystery": {"pattern": None, "source": "auto", "tags": ["large"], "tag_sources": {"large": {"rule": "Large purchases", "pattern": "amount > 500"}}},
              "Riddle": None}
VIEWS = "[All]\nfilter: true\n\n[Food Only]\ndescription: food & \"drink\" </script>\nfilter: category == \"Food\"\n"


def mk(i):
    m, desc, amt, tags, d, (cat, sub), extra = ALPHA[i]
    t = {"date": d, "description": m, "raw_description": desc, "amount": amt, "merchant": m, "category": cat, "subcategory": sub, "source": "Src " + str(i % 2),
         "location": None, "tags": list(tags), "match_info": {"pattern": 'contains("' + m.upper() + '")', "source": "user", "tags": list(tags)}}
    if m in MATCH_INFO:
        t["match_info"] = MATCH_INFO[m] and dict(MATCH_INFO[m])
    if extra:
        t["extra_fields"] = dict(extra)
    return t


def bounds(tier):
    return {"alphabet": len(ALPHA), "max_transactions": 3 if tier == "quick" else 4, "views": ["none", "two views"],
            "outputs": ["html-embedded", "html-separate", "json v0-2", "markdown v0-2", "summary", "views summary"]}


def gen_cases(tier):
    k = 3 if tier == "quick" else 4
    for n in range(1, k + 1):
        for combo in itertools.combinations(range(len(ALPHA)), n):
            for v in (0, 1):
                yield {"txns": list(combo), "views": v}
    # the documents `tally up` prints: with --quiet, stdout is the JSON / Markdown document and nothing else, whatever state the sources are in
    for fmt in ("json", "markdown"):
        for verbosity in ("", "-v", "-vv"):
            for state in ("all-ok", "one-missing", "one-unparseable"):
                yield {"cli": fmt, "verbosity": verbosity, "state": state}


def check_cli(case):
    from mc.core import proc
    base = os.path.join(R.scratch(), "c12cli")
    shutil.rmtree(base, ignore_errors=True)
    os.makedirs(os.path.join(base, "config"))
    os.makedirs(os.path.join(base, "data"))
    with open(os.path.join(base, "data", "a.csv"), "w") as f:
        f.write("Date,Description,Amount\n01/05/2025,NETFLIX.COM,15.50\n01/06/2025,COFFEE </script> BAR,4.25\n")
    if case["state"] == "one-unparseable":
        with open(os.path.join(base, "data", "b.csv"), "wb") as f:
            f.write(b"Date,Description,Amount\n01/07/2025,BAD \xff\xfe BYTES,1.00\n")
    elif case["state"] == "all-ok":
        with open(os.path.join(base, "data", "b.csv"), "w") as f:
            f.write("Date,Description,Amount\n01/07/2025,BOOK STORE,20.00\n")
    with open(os.path.join(base, "config", "merchants.rules"), "w") as f:
        f.write('[Netflix]\nmatch: contains("NETFLIX")\ncategory: Subs\nsubcategory: Streaming\n')
    with open(os.path.join(base, "config", "settings.yaml"), "w") as f:
        f.write('year: 2025\nmerchants_file: config/merchants.rules\ndata_sources:\n'
                '  - name: A\n    file: data/a.csv\n    format: "{date:%m/%d/%Y},{description},{amount}"\n'
                '  - name: B\n    file: data/b.csv\n    format: "{date:%m/%d/%Y},{description},{amount}"\n')
    argv = ["up", "-q", "--format", case["cli"]] + ([case["verbosity"]] if case["verbosity"] else [])
    r = proc.run_cli(argv, cwd=base)
    viol = []
    out = r["stdout"]
    if r["exit"] != 0:
        viol.append({"kind": "renderer-raises", "detail": {"output": " ".join(argv), "exit": r["exit"], "stderr_tail": r["stderr"][-300:]}})
    elif case["cli"] == "json":
        try:
            doc = json.loads(out)
            if "NETFLIX.COM" not in json.dumps(doc) and "Netflix" not in json.dumps(doc):
                viol.append({"kind": "merchants-differ", "detail": {"output": " ".join(argv), "problem": "the readable source's merchant is missing"}})
        except Exception as e:  # noqa
            viol.append({"kind": "quiet-output-is-not-the-document", "detail": {"output": " ".join(argv), "sources": case["state"], "problem": str(e)[:100], "stdout_head": out[:200]}})
    else:
        # any text is well-formed Markdown: only an empty document (nothing rendered at all) is judged here
        if "#" not in out:
            viol.append({"kind": "quiet-output-is-not-the-document", "detail": {"output": " ".join(argv), "sources": case["state"], "stdout_head": out[:200]}})
    shutil.rmtree(base, ignore_errors=True)
    return {"evals": 1, "nontrivial": 1 if case["state"] != "all-ok" else 0, "outcomes": ["cli-" + case["cli"]], "violations": viol,
            "sample_repr": {"command": " ".join(argv), "sources": case["state"]}}


class _Scripts(html.parser.HTMLParser):
    def __init__(self):
        super().__init__(convert_charrefs=True)
        self.scripts, self._in, self._buf = [], False, []

    def handle_starttag(self, tag, attrs):
        if tag == "script":
            self._in, self._buf = True, []

    def handle_endtag(self, tag):
        if tag == "script" and self._in:
            self.scripts.append("".join(self._buf))
            self._in = False

    def handle_data(self, data):
        if self._in:
            self._buf.append(data)


def payload_from_script_text(text):
    marker = "window.spendingData = "
    i = text.find(marker)
    if i < 0:
        return None
    body = text[i + len(marker):].strip()
    if body.endswith(";"):
        body = body[:-1]
    return body


def check_payload(data, stats, txns, label, viol):
    """data = decoded spendingData; must carry exactly what was analysed."""
    cv = data.get("categoryView", {})
    merchants = {}
    for cat, cd in cv.items():
        for sub, sd in cd.get("subcategories", {}).items():
            for mid, m in sd.get("merchants", {}).items():
                merchants.setdefault(m.get("displayName"), []).append(m)
    exp_m = set(stats["by_merchant"])
    for name in exp_m:
        if len(merchants.get(name, [])) != 1:
            viol.append({"kind": "merchant-not-exactly-once-in-html-data", "detail": {"output": label, "merchant": name, "occurrences": len(merchants.get(name, [])),
                                                                                        "present": sorted(x for x in merchants if x)}})
    for name in set(merchants) - exp_m:
        viol.append({"kind": "merchant-not-exactly-once-in-html-data", "detail": {"output": label, "merchant": name, "occurrences": "unexpected"}})
    # a date-valued extra field must arrive as some non-empty text; how a date is written is the report's business
    date_keys = {k for t in txns for k, v in (t.get("extra_fields") or {}).items() if hasattr(v, "isoformat")}

    def _fields(ef, from_report):
        if not ef:
            return json.dumps(ef, sort_keys=True)
        out = {}
        for k, v in ef.items():
            if k in date_keys:
                out[k] = "<date>" if (hasattr(v, "isoformat") or (from_report and isinstance(v, str) and v.strip())) else v
            else:
                out[k] = v
        return json.dumps(out, sort_keys=True)

    got_t = []
    for name, ms in merchants.items():
        for m in ms:
            for t in m.get("transactions", []):
                got_t.append((name, t.get("description"), t.get("amount"), t.get("month"), tuple(t.get("tags", [])), t.get("source"),
                              _fields(t.get("extra_fields"), True)))
    exp_t = []
    for t in txns:
        eff = abs(t["amount"]) if ({x.lower() for x in t["tags"]} & {"income", "investment"}) else t["amount"]
        exp_t.append((t["merchant"], t["raw_description"], eff, t["date"].strftime("%Y-%m"), tuple(t["tags"]), t["source"],
                      _fields(t.get("extra_fields"), False)))
    if sorted(got_t, key=repr) != sorted(exp_t, key=repr):
        missing = [x for x in exp_t if x not in got_t]
        extra = [x for x in got_t if x not in exp_t]
        viol.append({"kind": "transactions-differ-in-html-data", "detail": {"output": label, "missing_or_changed": missing[:3], "unexpected": extra[:3]}})
    ref = money.totals(txns)
    for key, want in (("incomeTotal", ref["income"]), ("spendingTotal", ref["spending"]), ("creditsTotal", ref["credits"]), ("cashFlow", ref["cash_flow"]),
                      ("transfersIn", ref["transfer_in"]), ("transfersOut", ref["transfer_out"]), ("transfersNet", ref["transfers_net"]),
                      ("investmentTotal", ref["investment"])):
        if data.get(key) != want:
            viol.append({"kind": "figure-differs", "detail": {"output": label, "figure": key, "expected": want, "got": data.get(key)}})
    total_cats = sum(cd.get("total", 0) for cd in cv.values())
    total_merch = sum(d["total"] for d in stats["by_merchant"].values())
    if abs(total_cats - total_merch) > 1e-9:
        viol.append({"kind": "category-sums-do-not-add-up", "detail": {"output": label, "sum_of_categories": total_cats, "analysed_total": total_merch}})
    tt = {"spending": 0, "income": 0, "investment": 0, "transfer": 0}
    for cd in cv.values():
        for k in tt:
            tt[k] += cd.get("typeTotals", {}).get(k, 0)
    for k, want in (("spending", ref["spending"]), ("income", ref["income"]), ("investment", ref["investment"]), ("transfer", ref["transfer_in"] + ref["transfer_out"])):
        if abs(tt[k] - want) > 1e-9:
            viol.append({"kind": "category-sums-do-not-add-up", "detail": {"output": label, "typeTotals": k, "sum": tt[k], "analysed": want}})


def money0(x):
    return "$" + f"{x:,.0f}"


def money2(x):
    return "$" + f"{abs(x):,.2f}"


def figure_ok(text, value):
    """Does the printed text show `value`? The number of decimals (0-2), blanks, thousands separators and a redundant '+' are the
    format's own business; the sign and every printed digit are not."""
    if text is None:
        return False
    t = re.sub(r"[\s$,*|+]", "", text)
    m = re.fullmatch(r"(-?)(\d+)(?:\.(\d{1,2}))?", t.replace("-", "", 1) if t.startswith("-") else t)
    if not m:
        return False
    d = len(m.group(3) or "")
    try:
        got = float(t)
    except ValueError:
        return False
    return got == float(f"{value:.{d}f}")


def check_case(case):
    if "cli" in case:
        return check_cli(case)
    from tally.analyzer import (analyze_transactions, classify_by_sections, compute_section_totals, export_json, export_markdown, print_summary,
                                print_sections_summary, write_summary_file_vue)
    from tally.section_engine import parse_sections
    txns = [mk(i) for i in case["txns"]]
    viol = []
    evals = 0
    H.reset_state()
    try:
        stats = analyze_transactions([dict(t) for t in txns])
        if case["views"]:
            cfg = parse_sections(VIEWS)
            res = classify_by_sections(stats["by_merchant"], cfg, stats["num_months"])
            stats["sections"] = {n: compute_section_totals(m) for n, m in res.items()}
            stats["_sections_config"] = cfg
    except Exception as e:  # noqa
        return {"evals": 1, "nontrivial": 0, "outcomes": ["analysis-raises"], "violations": [
            {"kind": "renderer-raises", "detail": {"output": "analyze_transactions", "exc": f"{type(e).__name__}: {e}"}}]}
    ref = money.totals(txns)
    outdir = os.path.join(R.scratch(), "c12out")
    shutil.rmtree(outdir, ignore_errors=True)
    os.makedirs(outdir)
    outcomes = set()

    def render(label, fn):
        nonlocal evals
        evals += 1
        buf = io.StringIO()
        try:
            with contextlib.redirect_stdout(buf):
                r = fn()
            outcomes.add(label.split(" ")[0] + ":ok")
            return r if r is not None else buf.getvalue()
        except Exception as e:  # noqa
            outcomes.add(label.split(" ")[0] + ":RAISES")
            viol.append({"kind": "renderer-raises", "detail": {"output": label, "exc": f"{type(e).__name__}: {str(e)[:200]}"}})
            return None

    # ---- JSON
    for v in (0, 1, 2):
        s = render(f"json -v{v}", lambda v=v: export_json(stats, verbose=v))
        if s is None:
            continue
        try:
            j = json.loads(s)
        except Exception as e:  # noqa
            viol.append({"kind": "output-not-parseable", "detail": {"output": f"json -v{v}", "exc": str(e)[:100]}})
            continue
        sm = j.get("summary", {})
        for key, want in (("income_total", round(ref["income"], 2)), ("credits_total", round(ref["credits"], 2))):
            if sm.get(key) != want:
                viol.append({"kind": "figure-differs", "detail": {"output": f"json -v{v}", "figure": key, "expected": want, "got": sm.get(key)}})
        if sm.get("net_cash_flow") is not None and sm.get("net_cash_flow") != round(ref["cash_flow"], 2):
            viol.append({"kind": "figure-differs", "detail": {"output": f"json -v{v}", "figure": "net_cash_flow", "expected": round(ref["cash_flow"], 2), "got": sm.get("net_cash_flow")}})
        names = [m["name"] for m in j.get("merchants", [])]
        if sorted(names) != sorted(stats["by_merchant"]):
            viol.append({"kind": "merchants-differ", "detail": {"output": f"json -v{v}", "got": names, "expected": sorted(stats["by_merchant"])}})
    # ---- Markdown
    for v in (0, 1, 2):
        s = render(f"markdown -v{v}", lambda v=v: export_markdown(stats, verbose=v))
        if s is None:
            continue
        for lab, val in (("| Income |", ref["income"]), ("| Spending |", -ref["spending"]), ("| Credits/Refunds |", ref["credits"]),
                         ("| **Net Cash Flow** |", ref["cash_flow"]), ("| In |", ref["transfer_in"]), ("| Out |", -ref["transfer_out"]),
                         ("| **Net Transfers** |", ref["transfers_net"])):
            line = next((l for l in s.splitlines() if l.startswith(lab)), None)
            cell = line[len(lab):] if line else None
            # spending and transfers-out are printed as outflows; a format may show them with or without the minus sign
            if not (figure_ok(cell, val) or (val <= 0 and lab in ("| Spending |", "| Out |") and figure_ok(cell, -val))):
                viol.append({"kind": "figure-differs", "detail": {"output": f"markdown -v{v}", "figure": lab, "expected_value": val, "got_line": line}})
    # ---- text summaries
    s = render("summary", lambda: print_summary(stats, year=2025))
    if s is not None:
        for lab, val in (("Income:", ref["income"]), ("Spending:", -ref["spending"]), ("Credits/Refunds:", ref["credits"]),
                         ("Net Cash Flow:", ref["cash_flow"]), ("In:", ref["transfer_in"]), ("Out:", -ref["transfer_out"]),
                         ("Net Transfers:", ref["transfers_net"])):
            line = next((l for l in s.splitlines() if l.startswith(lab)), None)
            cell = line[len(lab):] if line else None
            if not (figure_ok(cell, val) or (val <= 0 and lab in ("Spending:", "Out:") and figure_ok(cell, -val))):
                viol.append({"kind": "figure-differs", "detail": {"output": "summary", "figure": lab, "expected_value": val, "got_line": line}})
    if case["views"]:
        s = render("views-summary", lambda: print_sections_summary(stats, year=2025))
        if s is not None:
            exp = [("Income:", ref["income"]), ("Spending:", -ref["spending"]), ("Cash Flow:", ref["cash_flow"])]
            if ref["credits"] > 0:
                exp.append(("Credits:", ref["credits"]))
            for lab, val in exp:
                line = next((l for l in s.splitlines() if l.strip().startswith(lab)), None)
                cell = line.strip()[len(lab):] if line else None
                if not (figure_ok(cell, val) or (val <= 0 and lab == "Spending:" and figure_ok(cell, -val))):
                    viol.append({"kind": "figure-differs", "detail": {"output": "views-summary", "figure": lab, "expected_value": val, "got_line": line}})
    # ---- HTML
    for embedded in (True, False):
        label = "html-embedded" if embedded else "html-separate"
        path = os.path.join(outdir, f"{label}.html")
        r = render(label, lambda: write_summary_file_vue(stats, path, year=2025, sources=["Src 0", "Src 1"], embedded_html=embedded) or "written")
        if r is None:
            continue
        text = open(path, encoding="utf-8").read()
        if embedded:
            p = _Scripts()
            p.feed(text)
            p.close()
            cands = [payload_from_script_text(s) for s in p.scripts if "window.spendingData = " in s]
        else:
            dpath = os.path.join(outdir, "spending_data.js")
            cands = [payload_from_script_text(open(dpath, encoding="utf-8").read())] if os.path.exists(dpath) else []
            if '<script src="spending_data.js"></script>' not in text:
                viol.append({"kind": "html-data-not-decodable", "detail": {"output": label, "problem": "data script reference missing"}})
        if not cands or cands[0] is None:
            viol.append({"kind": "html-data-not-decodable", "detail": {"output": label, "problem": "no script element carries window.spendingData"}})
            continue
        try:
            data = json.loads(cands[0])
        except Exception as e:  # noqa
            viol.append({"kind": "html-data-not-decodable", "detail": {"output": label, "problem": f"payload is not JSON: {str(e)[:80]}", "payload_head": cands[0][:120],
                                                                       "payload_tail": cands[0][-120:]}})
            continue
        check_payload(data, stats, txns, label, viol)
    shutil.rmtree(outdir, ignore_errors=True)
    ids = [m.replace("'", "").replace('"', "").replace(" ", "_") for m in {t["merchant"] for t in txns}]
    nontrivial = 1 if (len(set(ids)) < len(ids) or any(re.search(r"script|PLACEHOLDER|\\\\", t["raw_description"]) for t in txns)
                       or len({money.bucket(t["amount"], t["tags"]) for t in txns}) >= 2) else 0
    return {"evals": evals, "nontrivial": nontrivial, "outcomes": sorted(outcomes), "violations": viol[:25],
            "sample_repr": {"transactions": [{"merchant": t["merchant"], "description": t["raw_description"], "amount": t["amount"], "tags": t["tags"]} for t in txns],
                            "views": bool(case["views"])}}
