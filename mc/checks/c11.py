"""C11 - `tally up` honours every setting: report = totals(classify(parse(sources))).

Deviation-bounded exhaustive exploration of budget configurations.  A default budget (2 statement sources with
different layouts, one with an extra field and {-amount}; a supplemental source queried by a rule; a .rules
file with a transform, a source-dependent rule, a field rule, an order-sensitive rule pair; views) and EVERY
budget that differs from it in <= B settings drawn from 38 single-setting deviations (per source: layout,
delimiter, header, decimal separator, sign mode, name, missing file, directory instead of file, invalid UTF-8;
rules file kind; rule mode; views; currency format; number of sources).  Each budget is materialised (statement
text rendered from abstract rows under the chosen settings) and run as `tally up --format json -v`,
`tally up --format summary` and `tally up` (HTML) in fresh forked processes.  Oracle: the expected analysis is
assembled by the harness from the abstract rows (never by reading the CSV) with normalize_merchant /
analyze_transactions / classify_by_sections called directly with independently constructed arguments.
"""
import datetime as dt
import html.parser
import itertools
import json
import os
import re
import shutil

from mc.core import harness as H
from mc.core import proc
from mc.checks import rules_common as R
from mc.ref import table as T
from mc.ref import money

PROPERTY = "C11"
LEVEL = "exploration"
DETERMINISM_CASES = 1
RULE = ("cases = the default budget and every budget at <= B deviations from it (B=2 quick, 3 thorough) over 44 single-setting deviations (combinations touching "
        "the same setting twice are skipped); each budget runs 3 CLI commands in fresh processes. non-trivial = budgets whose expected analysis differs from the "
        "default budget's (the deviation is observable); budgets distinct by construction")
ASSUMPTIONS = ["the expected report is assembled from abstract rows with library functions called directly (normalize_merchant, analyze_transactions, classify_by_sections); "
               "their own correctness is the business of C01/C05/C06/C10",
               "not judged: wording of messages (only that a missing/unreadable source is named), ordering of merchants, locations"]

D = dt.date
ROWS = {
    "Card": [(D(2025, 1, 5), "SQ *NETFLIX CARD", 15.5, ""), (D(2025, 1, 9), "UBER EATS CARD", 30.0, ""), (D(2025, 2, 3), "AMAZON CARD", 99.75, ""),
             (D(2025, 2, 10), "MYSTERY CARD", 1234.5, ""), (D(2025, 2, 11), "REFUND CARD", -20.25, "")],
    "Bank": [(D(2025, 1, 31), "PAYROLL BANK", -2000.0, "salary"), (D(2025, 1, 15), "WIRE OUT BANK", 500.0, "wire ref 7"),
             (D(2025, 3, 1), "NETFLIX BANK", 15.5, ""), (D(2025, 3, 2), "UBER EATS BANK", 0.25, "tip")],
    "Cash": [(D(2025, 3, 5), "NETFLIX CASH", 7.0, ""), (D(2025, 3, 6), "MARKET CASH", 12.25, "")],
    # a source whose format string is character-identical to Card's, but with different delimiter / header / sign overrides
    "Twin": [(D(2025, 1, 6), "NETFLIX TWIN", 9.0, ""), (D(2025, 2, 7), "UBER TWIN", -4.5, ""), (D(2025, 2, 8), "MARKET TWIN", 40.0, ""),
             # the same line (date, description, amount) as Card's first row: a rule that tests `source` must still see which file it came from
             (D(2025, 1, 5), "SQ *NETFLIX CARD", 15.5, "")],
}
ORDERS = [(D(2025, 2, 3), "Book", 99.75), (D(2025, 3, 2), "Pen", 0.25)]

RULES_TEXT = '''field.description = regex_replace(field.description, "^SQ \\\\*", "")

[Uber]
match: contains("UBER")
category: Transport
subcategory: Ride
tags: ride

[Uber Eats]
match: contains("UBER") and contains("EATS")
category: Food
subcategory: Delivery

[Netflix Card]
match: contains("NETFLIX") and source == "Card"
category: Subs
subcategory: CardStreaming
tags: video, {source}

[Netflix]
match: startswith("NETFLIX")
category: Subs
subcategory: Streaming
tags: video

[Ordered]
let: hits = [r.item for r in ORDERS if r.amount == amount]
match: len(hits) > 0
category: Shopping
subcategory: Orders
field: item = hits[0]
tags: verified

[Wire]
match: contains(field.memo, "wire")
category: Finance
subcategory: Wire
tags: transfer

[Payroll]
match: contains("PAYROLL")
category: Income
subcategory: Salary
tags: income

[Big]
match: amount > 1000
tags: large
'''
CSV_RULES_TEXT = ('Pattern,Merchant,Category,Subcategory,Tags\nUBER,Uber,Transport,Ride,ride\nUBER EATS,Uber Eats,Food,Delivery,\nNETFLIX,Netflix,Subs,Streaming,video\n'
                  'PAYROLL,Payroll,Income,Salary,income\nWIRE,Wire,Finance,Wire,transfer\n.*[amount>1000],Big,,,large\n')
VIEWS_TEXT = '[Everything]\nfilter: true\n\n[Subscriptions]\nfilter: category == "Subs"\n\n[Twice]\nfilter: months >= 2 or count(payments) >= 2\n'
VIEWS_BAD = '[Everything]\nfilter: true\n\n[Broken\nfilter: total >\n'

LAYOUTS = {
    "Card": [["date", "description", "amount"], ["_", "date", "amount", "description"], ["date", "description", "_", "amount"]],
    "Bank": [["date", "description", "memo", "amount"], ["memo", "date", "amount", "description"], ["date", "amount", "description", "memo"]],
    "Cash": [["date", "description", "amount"]],
    "Twin": [["date", "description", "amount"], ["_", "date", "amount", "description"], ["date", "description", "_", "amount"]],
}
DATEFMT = {"Card": "%m/%d/%Y", "Bank": "%Y-%m-%d", "Cash": "%d %b %y", "Twin": "%m/%d/%Y"}


def default_config():
    return {
        "sources": {
            "Card": {"layout": 0, "delimiter": "comma", "header": True, "decimal": ".", "sign": "keep", "state": "ok", "name": "Card"},
            "Bank": {"layout": 0, "delimiter": "comma", "header": True, "decimal": ".", "sign": "negate", "state": "ok", "name": "Bank"},
        },
        "order": ["Card", "Bank"], "rules": "rules", "mode": None, "views": "file", "currency": None, "supplemental": True,
    }


def deviations():
    devs = []
    for s in ("Card", "Bank"):
        for l in (1, 2):
            devs.append((f"{s}.layout", f"{s}:layout{l}", lambda c, s=s, l=l: c["sources"][s].__setitem__("layout", l)))
        for d in ("semicolon", "tab", "tab-literal"):
            devs.append((f"{s}.delimiter", f"{s}:delim-{d}", lambda c, s=s, d=d: c["sources"][s].__setitem__("delimiter", d)))
        devs.append((f"{s}.header", f"{s}:no-header", lambda c, s=s: c["sources"][s].__setitem__("header", False)))
        devs.append((f"{s}.decimal", f"{s}:decimal-comma", lambda c, s=s: c["sources"][s].__setitem__("decimal", ",")))
        for g in (("keep", "negate", "abs", "override")):
            if g != default_config()["sources"][s]["sign"]:
                devs.append((f"{s}.sign", f"{s}:sign-{g}", lambda c, s=s, g=g: c["sources"][s].__setitem__("sign", g)))
        for st in ("missing", "directory", "bad-utf8"):
            devs.append((f"{s}.state", f"{s}:{st}", lambda c, s=s, st=st: c["sources"][s].__setitem__("state", st)))
        # a file name that holds shell-wildcard characters (a browser's duplicate download): it names exactly that file
        devs.append((f"{s}.fname", f"{s}:file-name-with-brackets", lambda c, s=s: c["sources"][s].__setitem__("fname", f"{s.lower()}[1].csv")))
        # a `type:` key left over from before the source got its format string: the format string decides how the file is read
        devs.append((f"{s}.type", f"{s}:leftover-type", lambda c, s=s: c["sources"][s].__setitem__("type", "amex" if s == "Card" else "csv")))
        devs.append((f"{s}.name", f"{s}:renamed", lambda c, s=s: c["sources"][s].__setitem__("name", "Card" if s == "Bank" else "Visa")))
    for r in ("csv", "none", "nowhere"):
        devs.append(("rules", f"rules:{r}", lambda c, r=r: c.__setitem__("rules", r)))
    for m in ("most_specific", "bogus", "first_match", "First_Match", "first-match", "MOST_SPECIFIC"):
        devs.append(("mode", f"mode:{m}", lambda c, m=m: c.__setitem__("mode", m)))
    for v in ("none", "broken"):
        devs.append(("views", f"views:{v}", lambda c, v=v: c.__setitem__("views", v)))
    devs.append(("currency", "currency:zl", lambda c: c.__setitem__("currency", "{amount} zl")))
    devs.append(("count", "sources:1", lambda c: c.__setitem__("order", ["Card"])))
    devs.append(("count", "sources:3", lambda c: (c["sources"].__setitem__("Cash", {"layout": 0, "delimiter": "tab", "header": False, "decimal": ".", "sign": "keep",
                                                                                     "state": "ok", "name": "Cash"}), c.__setitem__("order", ["Card", "Bank", "Cash"]))))
    devs.append(("count", "sources:twin-of-card", lambda c: (c["sources"].__setitem__("Twin", {"layout": 0, "delimiter": "semicolon", "header": False, "decimal": ".",
                                                                                             "sign": "override", "state": "ok", "name": "Twin"}),
                                                             c.__setitem__("order", ["Card", "Twin", "Bank"]))))
    devs.append(("supplemental", "supplemental:absent", lambda c: c.__setitem__("supplemental", False)))
    devs.append(("supplemental", "supplemental:latin1-byte", lambda c: c.__setitem__("supplemental", "latin1")))
    devs.append(("order", "sources:reordered", lambda c: c.__setitem__("order", ["Bank", "Card"])))
    return devs


DEVS = deviations()


def bounds(tier):
    return {"single_deviations": len(DEVS), "max_deviations": 2 if tier == "quick" else 3, "commands_per_budget": 3}


def gen_cases(tier):
    b = 2 if tier == "quick" else 3
    yield {"devs": []}
    for n in range(1, b + 1):
        for combo in itertools.combinations(range(len(DEVS)), n):
            if len({DEVS[i][0] for i in combo}) < n:
                continue
            yield {"devs": list(combo)}


def config_for(case):
    c = default_config()
    for i in case["devs"]:
        DEVS[i][2](c)
    return c


# ------------------------------------------------------------------------------------------------ materialise
def fmt_amount(x, decimal, file_sign):
    """Write the number so that, read under (decimal, sign mode), it yields the abstract amount x."""
    v = x
    if file_sign in ("negate", "override"):
        v = -x
    s = f"{abs(v):,.2f}"
    if decimal == ",":
        s = s.replace(",", "X").replace(".", ",").replace("X", ".")
    return ("-" if v < 0 else "") + s


def expected_amount(x, sign):
    return abs(x) if sign == "abs" else x


def source_yaml(key, sc):
    cols = LAYOUTS[key][sc["layout"]]
    toks = []
    for c in cols:
        if c == "date":
            toks.append("{date:" + DATEFMT[key] + "}")
        elif c == "amount":
            toks.append({"keep": "{amount}", "override": "{amount}", "negate": "{-amount}", "abs": "{+amount}"}[sc["sign"]])
        else:
            toks.append("{" + c + "}")
    lines = [f"  - name: {sc['name']}", f"    file: data/{sc.get('fname') or key.lower() + '.csv'}", '    format: "' + ",".join(toks) + '"']
    if sc["delimiter"] == "semicolon":
        lines.append('    delimiter: ";"')
    elif sc["delimiter"] == "tab":
        lines.append("    delimiter: tab")
    elif sc["delimiter"] == "tab-literal":
        lines.append('    delimiter: "\\t"')          # YAML double-quoted escape: the value is one TAB character
    if not sc["header"]:
        lines.append("    has_header: false")
    if sc["decimal"] == ",":
        lines.append('    decimal_separator: ","')
    if sc["sign"] == "override":
        lines.append("    negate_amount: true")
    if sc.get("type"):
        lines.append(f"    type: {sc['type']}")
    return "\n".join(lines)


def materialise(cfg, base):
    shutil.rmtree(base, ignore_errors=True)
    os.makedirs(os.path.join(base, "config"))
    os.makedirs(os.path.join(base, "data"))
    y = ["year: 2025"]
    if cfg["rules"] == "rules":
        y.append("merchants_file: config/merchants.rules")
        with open(os.path.join(base, "config", "merchants.rules"), "w", encoding="utf-8") as f:
            f.write(RULES_TEXT)
    elif cfg["rules"] == "csv":
        with open(os.path.join(base, "config", "merchant_categories.csv"), "w", encoding="utf-8") as f:
            f.write(CSV_RULES_TEXT)
    elif cfg["rules"] == "nowhere":
        y.append("merchants_file: config/missing.rules")
    if cfg["mode"]:
        y.append(f"rule_mode: {cfg['mode']}")
    if cfg["views"] != "none":
        y.append("views_file: config/views.rules")
        with open(os.path.join(base, "config", "views.rules"), "w", encoding="utf-8") as f:
            f.write(VIEWS_TEXT if cfg["views"] == "file" else VIEWS_BAD)
    if cfg["currency"]:
        y.append(f'currency_format: "{cfg["currency"]}"')
    y.append("data_sources:")
    for key in cfg["order"]:
        sc = cfg["sources"][key]
        y.append(source_yaml(key, sc))
        path = os.path.join(base, "data", sc.get("fname") or f"{key.lower()}.csv")
        if sc["state"] == "missing":
            continue
        if sc["state"] == "directory":
            os.makedirs(path)
            continue
        cols = LAYOUTS[key][sc["layout"]]
        rows = []
        for d, desc, amt, memo in ROWS[key]:
            vals = {"date": d.strftime(DATEFMT[key]), "description": desc, "amount": fmt_amount(amt, sc["decimal"], sc["sign"]), "memo": memo, "_": "zz"}
            rows.append([vals[c] for c in cols])
        text = T.render_file([c.upper() for c in cols] if sc["header"] else None, rows, sc["delimiter"])
        data = text.encode("utf-8")
        if sc["state"] == "bad-utf8":
            data = data.replace(b"NETFLIX", b"NETFL\xffX")
        with open(path, "wb") as f:
            f.write(data)
    if cfg["supplemental"]:
        y.append('  - name: orders\n    file: data/orders.csv\n    format: "{date:%Y-%m-%d},{item},{amount}"\n    columns:\n      description: "{item}"\n    supplemental: true')
        with open(os.path.join(base, "data", "orders.csv"), "wb") as f:
            f.write(("Date,Item,Amount\n" + "".join(f"{d.isoformat()},{i},{a}\n" for d, i, a in ORDERS)).encode("utf-8"))
            if cfg["supplemental"] == "latin1":
                # an export in a legacy 8-bit encoding: the undecodable byte is replaced, the rows stay usable
                f.write(b"2025-01-20,Caf\xe9 Latin,3.33\n")
    with open(os.path.join(base, "config", "settings.yaml"), "w", encoding="utf-8") as f:
        f.write("\n".join(y) + "\n")


# ------------------------------------------------------------------------------------------------ expectation from library components
def admissible_modes(spelling):
    """Rule modes a budget may legitimately run under. A canonical spelling (or none) fixes the mode. For any other text the
    property does not say what "the configured rule mode" is: tally may reject it and use the default (first_match), or read a
    spelling that differs only in letter case / separators as the mode it obviously names - both are accepted, nothing else."""
    if spelling is None:
        return ["first_match"]
    if spelling in ("first_match", "most_specific"):
        return [spelling]
    out = ["first_match"]
    norm = re.sub(r"[\s\-]+", "_", spelling.strip().lower())
    if norm in ("first_match", "most_specific") and norm not in out:
        out.append(norm)
    return out


def expected_stats(cfg, base, mode=None):
    from tally.merchant_utils import get_all_rules, get_transforms, normalize_merchant
    from tally.analyzer import analyze_transactions, classify_by_sections, compute_section_totals
    from tally.section_engine import parse_sections
    H.reset_state()
    mode = mode or admissible_modes(cfg["mode"])[0]
    if cfg["rules"] == "rules":
        path = R.write_scratch("c11.rules", RULES_TEXT)
    elif cfg["rules"] == "csv":
        path = R.write_scratch("c11_merchant_categories.csv", CSV_RULES_TEXT)
    else:
        path = None
    transforms = get_transforms(path, match_mode=mode)
    rules = get_all_rules(path, match_mode=mode)
    ds = {"orders": [{"date": d, "item": i, "amount": a, "description": i} for d, i, a in ORDERS]} if cfg["supplemental"] else {}
    if cfg["supplemental"] == "latin1":
        ds["orders"].append({"date": dt.date(2025, 1, 20), "item": "Caf\ufffd Latin", "amount": 3.33, "description": "Caf\ufffd Latin"})
    txns = []
    readable = []
    # the rows are classified in the REVERSE of the order `tally up` reads them (a transaction's classification cannot depend on
    # what was classified before it), then put back into reading order
    per_source = {}
    for key in reversed(cfg["order"]):
        sc = cfg["sources"][key]
        if sc["state"] != "ok":
            continue
        readable.insert(0, sc["name"])
        has_memo = "memo" in LAYOUTS[key][sc["layout"]]
        txns = per_source.setdefault(key, [])
        for d, desc, amt, memo in reversed(ROWS[key]):
            a = expected_amount(amt, sc["sign"])
            field = {"memo": memo} if has_memo else None
            m, c, s, info = normalize_merchant(desc, rules, amount=a, txn_date=d, field=dict(field) if field else None, data_source=sc["name"],
                                               transforms=transforms, location=None, data_sources=ds)
            t = {"date": dt.datetime(d.year, d.month, d.day), "raw_description": desc, "description": m, "amount": a, "merchant": m, "category": c,
                 "subcategory": s, "source": sc["name"], "location": None, "match_info": info, "tags": (info or {}).get("tags", []), "field": field}
            if info and info.get("extra_fields"):
                t["extra_fields"] = info["extra_fields"]
            txns.insert(0, t)
    txns = [t for key in cfg["order"] for t in per_source.get(key, [])]
    H.reset_state()
    if not txns:
        return None, readable
    stats = analyze_transactions(txns)
    views = None
    if cfg["views"] == "file":
        cfgv = parse_sections(VIEWS_TEXT)
        res = classify_by_sections(stats["by_merchant"], cfgv, stats["num_months"])
        views = {k: sorted(m for m, _ in v) for k, v in res.items()}
    return {"stats": stats, "views": views, "txns": txns}, readable


def merchants_view(stats):
    out = {}
    for name, d in stats["by_merchant"].items():
        out[name] = {"category": d["category"], "subcategory": d["subcategory"], "tags": sorted(d["tags"]), "total": round(d["total"], 2), "count": d["count"],
                     "raw": dict(d["raw_descriptions"])}
    return out


class _Scripts(html.parser.HTMLParser):
    def __init__(self):
        super().__init__()
        self.scripts, self._in, self._buf = [], False, []

    def handle_starttag(self, tag, attrs):
        if tag == "script":
            self._in, self._buf = True, []

    def handle_endtag(self, tag):
        if tag == "script" and self._in:
            self.scripts.append("".join(self._buf))
            self._in = False

    def handle_data(self, data):
        if self._in:
            self._buf.append(data)


def check_case(case):
    cfg = config_for(case)
    first = None
    for mode in admissible_modes(cfg["mode"]):
        res = check_under_mode(case, cfg, mode)
        if not res["violations"]:
            return res
        first = first or res
    return first


def check_under_mode(case, cfg, mode):
    base = os.path.join(R.scratch(), "c11budget")
    materialise(cfg, base)
    labels = [DEVS[i][1] for i in case["devs"]]
    viol = []
    exp, readable = expected_stats(cfg, base, mode)
    evals = 0
    outcomes = set()
    # ---------------- json
    r = proc.run_cli(["up", "--format", "json", "-v"], cwd=base)
    evals += 1
    out_all = r["stdout"] + "\n" + r["stderr"]
    for key in cfg["order"]:
        sc = cfg["sources"][key]
        # reported = some line of the output names the source (or its file) together with a problem word; wording, stream and layout are free
        fn = sc.get("fname") or f"{key.lower()}.csv"
        lines_naming = [l for l in out_all.splitlines() if sc["name"] in l or fn in l]
        problem = re.compile(r"(?i)not found|missing|error|cannot|can't|could not|unable|skip|unreadable|invalid|fail|no such|directory|decod|utf|warning|problem|does not exist")
        if sc["state"] != "ok" and not any(problem.search(l) for l in lines_naming):
            viol.append({"kind": "unreadable-source-not-reported", "detail": {"deviations": labels, "source": sc["name"], "state": sc["state"], "stdout_head": r["stdout"][:400]}})
    if exp is None:
        outcomes.add("no-transactions")
        if r["exit"] == 0:
            viol.append({"kind": "report-without-transactions", "detail": {"deviations": labels, "stdout_tail": r["stdout"][-300:]}})
    else:
        try:
            j = proc.json_document(r["stdout"])
        except Exception as e:  # noqa
            j = None
            viol.append({"kind": "up-json-failed", "detail": {"deviations": labels, "exit": r["exit"], "stderr_tail": r["stderr"][-400:], "stdout_tail": r["stdout"][-300:]}})
        if j is not None:
            want = merchants_view(exp["stats"])
            got = {m["name"]: {"category": m["category"], "subcategory": m["subcategory"], "tags": sorted(m["tags"]), "total": m["total"], "count": m["count"],
                               "raw": m.get("raw_descriptions", {})} for m in j["merchants"]}
            if got != want:
                diff = sorted(set(k for k in set(got) | set(want) if got.get(k) != want.get(k)))
                viol.append({"kind": "report-differs-from-pipeline", "detail": {"deviations": labels, "output": "json", "merchants": diff,
                                                                               "expected": {k: want.get(k) for k in diff[:3]}, "got": {k: got.get(k) for k in diff[:3]}}})
            ref = money.totals(exp["txns"])
            sm = j["summary"]
            for k, w in (("income_total", round(ref["income"], 2)), ("credits_total", round(ref["credits"], 2)),
                         ("total_spending", round(sum(t["amount"] for t in exp["txns"]), 2))):
                if sm.get(k) != w:
                    viol.append({"kind": "report-differs-from-pipeline", "detail": {"deviations": labels, "output": "json", "figure": k, "expected": w, "got": sm.get(k)}})
            outcomes.add(f"{len(want)}merchants")
            if cfg["rules"] == "csv":
                # the run that migrates the legacy CSV on request must report what the plain run reports (same rule mode, same everything)
                mig = base + "_mig"
                shutil.rmtree(mig, ignore_errors=True)
                shutil.copytree(base, mig)
                rm = proc.run_cli(["up", "--migrate", "--format", "json", "-v"], cwd=mig)
                evals += 1
                try:
                    jm = proc.json_document(rm["stdout"])
                    got_m = {m["name"]: {"category": m["category"], "subcategory": m["subcategory"], "tags": sorted(m["tags"]), "total": m["total"], "count": m["count"],
                                         "raw": m.get("raw_descriptions", {})} for m in jm["merchants"]}
                except Exception as e:  # noqa
                    got_m = f"no JSON report (exit {rm['exit']}): {rm['stderr'][-200:]}"
                if got_m != got:
                    diff = sorted(k for k in (set(got_m) | set(got) if isinstance(got_m, dict) else set()) if got_m.get(k) != got.get(k))
                    viol.append({"kind": "migrating-run-reports-differently", "detail": {"deviations": labels, "merchants": diff[:4],
                                                                                        "plain_run": {k: got.get(k) for k in diff[:3]},
                                                                                        "migrating_run": ({k: got_m.get(k) for k in diff[:3]} if isinstance(got_m, dict) else got_m)}})
                shutil.rmtree(mig, ignore_errors=True)
        # ---------------- summary (views)
        r2 = proc.run_cli(["up", "--format", "summary"], cwd=base)
        evals += 1
        if r2["exit"] != 0:
            viol.append({"kind": "up-summary-failed", "detail": {"deviations": labels, "exit": r2["exit"], "stderr_tail": r2["stderr"][-300:]}})
        elif exp["views"] is not None:
            for vname, members in exp["views"].items():
                if not members:
                    continue
                block = re.search(r"(?m)^" + re.escape(vname.upper()) + r" \((.*?)\)\n-+\n.*?\n-+\n(.*?)(?:\n\n|\Z)", r2["stdout"], re.S)
                got_m = sorted(l[:28].strip() for l in block.group(2).splitlines() if l.strip() and not l.startswith("  ...")) if block else None
                if block is None:
                    outcomes.add("summary-layout-not-recognised")      # layout of the text summary is not part of the property; the HTML data below is judged
                    continue
                if got_m != sorted(members):
                    viol.append({"kind": "view-membership-differs-from-pipeline", "detail": {"deviations": labels, "view": vname, "expected": sorted(members), "got": got_m}})
            cur = cfg["currency"] or "${amount}"
            ref = money.totals(exp["txns"])
            want_line = cur.format(amount=f"{ref['spending']:,.0f}")
            want_alt = cur.format(amount=f"{ref['spending']:,.2f}")
            if want_line not in r2["stdout"] and want_alt not in r2["stdout"]:
                viol.append({"kind": "currency-or-total-differs", "detail": {"deviations": labels, "expected_to_contain": want_line, "stdout_tail": r2["stdout"][-300:]}})
        elif cfg["views"] == "broken" and "views" not in (r2["stdout"] + r2["stderr"]).lower():
            viol.append({"kind": "broken-views-file-not-reported", "detail": {"deviations": labels, "stderr_tail": r2["stderr"][-300:]}})
        # ---------------- html
        r3 = proc.run_cli(["up", "--quiet"], cwd=base)
        evals += 1
        hp = os.path.join(base, "output", "spending_summary.html")
        if r3["exit"] != 0 or not os.path.exists(hp):
            viol.append({"kind": "up-html-failed", "detail": {"deviations": labels, "exit": r3["exit"], "stderr_tail": r3["stderr"][-300:]}})
        else:
            p = _Scripts()
            p.feed(open(hp, encoding="utf-8").read())
            sc = [s for s in p.scripts if "window.spendingData = " in s]
            try:
                body = sc[0][sc[0].index("window.spendingData = ") + 22:].strip().rstrip(";")
                data = json.loads(body)
            except Exception as e:  # noqa
                data = None
                viol.append({"kind": "up-html-failed", "detail": {"deviations": labels, "problem": f"spendingData not decodable: {e}"}})
            if data is not None:
                names = sorted(m["displayName"] for c in data["categoryView"].values() for s in c["subcategories"].values() for m in s["merchants"].values())
                if names != sorted(exp["stats"]["by_merchant"]):
                    viol.append({"kind": "report-differs-from-pipeline", "detail": {"deviations": labels, "output": "html", "merchants": names,
                                                                                   "expected": sorted(exp["stats"]["by_merchant"])}})
                ref = money.totals(exp["txns"])
                for k, w in (("incomeTotal", ref["income"]), ("spendingTotal", ref["spending"]), ("creditsTotal", ref["credits"]), ("cashFlow", ref["cash_flow"]),
                             ("transfersOut", ref["transfer_out"]), ("transfersIn", ref["transfer_in"])):
                    if abs(data.get(k, 0) - w) > 1e-6:
                        viol.append({"kind": "report-differs-from-pipeline", "detail": {"deviations": labels, "output": "html", "figure": k, "expected": w, "got": data.get(k)}})
                if exp["views"] is not None:
                    # a view without members may be listed (empty) or left out: both say "no members"
                    got_v = {s["title"]: sorted(m["displayName"] for m in s["merchants"].values()) for s in data["sections"].values() if s["merchants"]}
                    want_v = {k: v for k, v in exp["views"].items() if v}
                    if got_v != want_v:
                        viol.append({"kind": "view-membership-differs-from-pipeline", "detail": {"deviations": labels, "output": "html", "expected": want_v, "got": got_v}})
                if sorted(data.get("sources", [])) != sorted(cfg["sources"][k]["name"] for k in cfg["order"]):
                    viol.append({"kind": "report-differs-from-pipeline", "detail": {"deviations": labels, "output": "html", "figure": "sources", "got": data.get("sources")}})
    shutil.rmtree(base, ignore_errors=True)
    return {"evals": evals, "nontrivial": 1 if case["devs"] else 0, "outcomes": sorted(outcomes), "violations": viol[:15],
            "sample_repr": {"deviations_from_default": labels}}
