"""C20 - commands never alter or overwrite the user's statements, rules or settings.

Explicit-state breadth-first search over command sequences.  A state is a budget directory tree
(relative path -> bytes; report files under the output location are reduced to their names).  From each
of 9 initial trees every one of 13 commands is a transition: the tree is materialised in a scratch
directory, the real `tally` command runs in a forked child (own cwd, stdin=/dev/null, non-tty) and the
resulting tree is the successor.  The frame condition is checked on EVERY transition; the search is
level-synchronous with the tree as visited key, so command sequences are explored from non-initial states
(after init, after migration, after reports exist) as well.
"""
import hashlib
import os
import shutil
import tempfile
import traceback
import multiprocessing as mp
from collections import Counter

from mc.core import harness as H
from mc.core import proc

PROPERTY = "C20"
LEVEL = "model_checking"
RULE = ("states = distinct budget trees reachable from 17 initial trees by <= D commands (D=3 quick, 6 thorough or fixpoint); transitions = "
        "(tree, command) pairs over 16 commands, each executed by the real CLI in a forked process; invariant per transition = frame condition "
        "of the property for that command class (read-only / init / explicit migration)")
ASSUMPTIONS = ["commands run non-interactively: stdin=/dev/null, stdout/stderr not a tty",
               "bytes of files tally itself creates, and the contents of the output location, are not judged",
               "`tally init` may move a legacy CSV that has rules to .bak (byte-identical) when no merchants.rules exists, and may append to settings.yaml"]

STMT = ("Date,Description,Amount\n01/10/2025,NETFLIX.COM,15.99\n01/11/2025,COFFEE SHOP,4.50\n02/11/2025,MYSTERY STORE 1234,25.00\n"
        # rows no command can read (pending date, amount n/a): they are skipped, not written anywhere
        "Pending,HOLD AT PUMP,30.00\n02/12/2025,FEE WAIVED,n/a\n")
SETTINGS_FULL = ('year: 2025\nmerchants_file: config/merchants.rules\nviews_file: config/views.rules\ndata_sources:\n  - name: Card\n'
                 '    file: data/s.csv\n    format: "{date:%m/%d/%Y},{description},{amount}"\n')
SETTINGS_NOVIEWS = SETTINGS_FULL.replace("views_file: config/views.rules\n", "").replace("\n", "\r\n")   # CRLF file
SETTINGS_BARE = ('year: 2025\ndata_sources:\n  - name: Card\n    file: data/s.csv\n    format: "{date:%m/%d/%Y},{description},{amount}"\n# tail comment  \n\n\n')
RULES = '# my rules\n[Netflix]\nmatch: contains("NETFLIX")\ncategory: Subs\nsubcategory: Streaming\n\n[Coffee]\nmatch: contains("COFFEE")\ncategory: Food\ntags: treat\n'
VIEWS = "[All]\nfilter: true\n"
CSV_RULES = "# legacy\nPattern,Merchant,Category,Subcategory,Tags\nNETFLIX,Netflix,Subs,Streaming,video\nCOFFEE,Coffee,Food,Cafe,\n"
CSV_EMPTY = "# legacy\nPattern,Merchant,Category,Subcategory\n\n# Add your custom rules below:\n"
OLD_BAK = "Pattern,Merchant,Category,Subcategory\nPRECIOUS,Old Backup,Keep,Me\n"
OLD_RULES = '# hand-written, not referenced by settings\n[Precious]\nmatch: contains("PRECIOUS")\ncategory: Keep\n'


def _old(files):
    return dict(files)


def _new(files):
    return {"tally/" + k: v for k, v in files.items()}


INITIAL = {
    "new-layout-complete": _new({"config/settings.yaml": SETTINGS_FULL, "config/merchants.rules": RULES, "config/views.rules": VIEWS, "data/s.csv": STMT}),
    "old-layout-complete": _old({"config/settings.yaml": SETTINGS_FULL, "config/merchants.rules": RULES, "config/views.rules": VIEWS, "data/s.csv": STMT,
                                 "notes.txt": "keep me\n"}),
    "old-no-views": _old({"config/settings.yaml": SETTINGS_NOVIEWS, "config/merchants.rules": RULES, "data/s.csv": STMT}),
    "old-no-rules": _old({"config/settings.yaml": SETTINGS_BARE, "data/s.csv": STMT}),
    "legacy-csv-with-rules": _old({"config/settings.yaml": SETTINGS_BARE, "config/merchant_categories.csv": CSV_RULES, "data/s.csv": STMT}),
    "legacy-csv-header-only": _old({"config/settings.yaml": SETTINGS_BARE, "config/merchant_categories.csv": CSV_EMPTY, "data/s.csv": STMT}),
    "legacy-csv-bak-and-rules": _old({"config/settings.yaml": SETTINGS_BARE, "config/merchant_categories.csv": CSV_RULES,
                                      "config/merchant_categories.csv.bak": OLD_BAK, "config/merchants.rules": OLD_RULES, "data/s.csv": STMT}),
    "legacy-csv-and-bak": _old({"config/settings.yaml": SETTINGS_BARE, "config/merchant_categories.csv": CSV_RULES,
                                "config/merchant_categories.csv.bak": OLD_BAK, "data/s.csv": STMT}),
    # a second settings file (other year, own comment, no merchants_file entry) next to the main one, legacy CSV rules
    "legacy-csv-two-settings": _old({"config/settings.yaml": SETTINGS_BARE, "config/card.yaml": "# card only\n" + SETTINGS_BARE.replace("year: 2025", "year: 2024\ntitle: Card"),
                                     "config/merchant_categories.csv": CSV_RULES, "data/s.csv": STMT}),
    "rules-unreferenced": _old({"config/settings.yaml": SETTINGS_BARE, "config/merchants.rules": RULES, "data/s.csv": STMT}),
    # settings name a views file that does not exist (read-only commands must not create it)
    "old-views-dangling": _old({"config/settings.yaml": SETTINGS_FULL, "config/merchants.rules": RULES, "data/s.csv": STMT}),
    "new-views-dangling": _new({"config/settings.yaml": SETTINGS_FULL, "config/merchants.rules": RULES, "data/s.csv": STMT}),
    # settings name the user's own rules file while a legacy CSV with rules lies next to it (init must not re-point the entry)
    "custom-rules-file-and-legacy-csv": _old({"config/settings.yaml": SETTINGS_FULL.replace("config/merchants.rules", "config/my.rules"), "config/my.rules": RULES,
                                              "config/views.rules": VIEWS, "config/merchant_categories.csv": CSV_RULES, "data/s.csv": STMT}),
    # files init knows how to create already exist with the user's own content (.gitignore without data/ and output/ entries)
    "own-gitignore": _old({"config/settings.yaml": SETTINGS_FULL, "config/merchants.rules": RULES, "config/views.rules": VIEWS, "data/s.csv": STMT,
                           ".gitignore": "# mine\n*.bak\nnotes/\n", "config/.gitignore": "secret.yaml\n"}),
    # zero-length files where init would put a starter: they exist, so they stay as they are
    "empty-config-files": _old({"config/settings.yaml": SETTINGS_FULL, "config/merchants.rules": "", "config/views.rules": "", "data/s.csv": STMT}),
    # earlier backups with gaps in their numbering (a new backup must take a name that is free)
    "legacy-csv-bak1-only": _old({"config/settings.yaml": SETTINGS_BARE, "config/merchant_categories.csv": CSV_RULES,
                                  "config/merchant_categories.csv.bak.1": OLD_BAK, "data/s.csv": STMT}),
    "legacy-csv-bak-and-bak2": _old({"config/settings.yaml": SETTINGS_BARE, "config/merchant_categories.csv": CSV_RULES,
                                     "config/merchant_categories.csv.bak": OLD_BAK, "config/merchant_categories.csv.bak.2": OLD_BAK + "SECOND,Old Backup 2,Keep,Too\n",
                                     "data/s.csv": STMT}),
}

COMMANDS = [
    ("up", ["up"]), ("up-json", ["up", "--format", "json"]), ("up-summary", ["up", "--summary"]), ("up-no-embed", ["up", "--no-embedded-html"]),
    ("explain", ["explain"]), ("explain-merchant", ["explain", "Netflix"]), ("discover", ["discover"]), ("discover-json", ["discover", "--format", "json"]),
    ("diag", ["diag"]), ("inspect", ["inspect", "@STMT"]), ("init", ["init"]), ("init-dir", ["init", "sub"]), ("up-migrate", ["up", "--migrate"]),
    # the same run started from INSIDE the config directory with an explicit relative path
    ("up-in-config", ["up", "."]),
    # a run under a second settings file of the config directory, alone and together with the rule migration
    ("up-alt-settings", ["up", "--settings", "card.yaml"]), ("up-migrate-alt-settings", ["up", "--settings", "card.yaml", "--migrate"]),
]
READ_ONLY = {"up-alt-settings", "up-in-config", "up", "up-json", "up-summary", "up-no-embed", "explain", "explain-merchant", "discover", "discover-json", "diag", "inspect"}


def is_output(path):
    parts = path.split("/")
    return "output" in parts[:-1] and (parts[0] == "output" or parts[:2] == ["tally", "output"] or parts[:2] == ["sub", "output"])


def state_key(files):
    return tuple(sorted((p, "OUT" if is_output(p) else hashlib.sha256(b).hexdigest()[:16]) for p, b in files.items()))


def materialise(files):
    root = tempfile.mkdtemp(prefix="c20-", dir=H.TMP)
    for p, b in files.items():
        full = os.path.join(root, p)
        os.makedirs(os.path.dirname(full), exist_ok=True)
        with open(full, "wb") as f:
            f.write(b)
    return root


def snapshot(root):
    out = {}
    for d, _, fs in os.walk(root):
        for f in fs:
            full = os.path.join(d, f)
            rel = os.path.relpath(full, root)
            if os.path.islink(full):
                out[rel] = b"LINK:" + os.readlink(full).encode()
            else:
                with open(full, "rb") as fh:
                    out[rel] = fh.read()
    return out


def _backed_up(p, b, before, after):
    """The legacy CSV may be renamed to a NEW backup file holding exactly its bytes (any name, same directory:
    the property promises a backup, not how it is called)."""
    return any(os.path.dirname(q) == os.path.dirname(p) and q not in before and c == b for q, c in after.items())


def frame_violations(cmd_name, before, after):
    """The frame condition of the property for one transition."""
    v = []
    gone_ok = set()
    if cmd_name in READ_ONLY:
        for p, b in before.items():
            if is_output(p):
                continue
            if p not in after:
                v.append(("file-removed-by-read-only-command", p))
            elif after[p] != b:
                v.append(("file-changed-by-read-only-command", p))
        for p in after:
            if p not in before and not is_output(p):
                v.append(("file-created-outside-output-by-read-only-command", p))
        return v
    # init / up --migrate: nothing the user had may disappear; settings may only grow; CSV may move to .bak unchanged
    for p, b in before.items():
        if is_output(p):
            continue
        if p in after and after[p] == b:
            continue
        if p.endswith("settings.yaml") and p in after and after[p].startswith(b):
            continue
        if p.endswith("merchant_categories.csv") and p not in after and _backed_up(p, b, before, after):
            continue
        if p not in after:
            v.append(("user-file-removed", p))
        else:
            v.append(("user-file-overwritten", p))
    if cmd_name in ("up-migrate", "up-migrate-alt-settings"):
        # the migration must leave the original rules as a backup
        for p, b in before.items():
            if p.endswith("merchant_categories.csv") and p not in after and not _backed_up(p, b, before, after):
                v.append(("migration-without-backup", p))
    return v


def run_transition(args):
    files, cmd_idx = args
    name, argv = COMMANDS[cmd_idx]
    try:
        H.import_tally()
        root = materialise(files)
        try:
            stmt = "tally/data/s.csv" if any(p.startswith("tally/data/") for p in files) else "data/s.csv"
            argv2 = [stmt if a == "@STMT" else a for a in argv]
            cwd = root
            if name.endswith("-in-config"):
                for cand in ("config", os.path.join("tally", "config")):
                    if os.path.isdir(os.path.join(root, cand)):
                        cwd = os.path.join(root, cand)
                        break
            r = proc.run_cli(argv2, cwd=cwd)
            after = snapshot(root)
        finally:
            shutil.rmtree(root, ignore_errors=True)
        viol = frame_violations(name, files, after)
        crashed = r["exit"] == 70 or "Traceback (most recent call last)" in r["stderr"]
        return {"after": after, "viol": viol, "exit": r["exit"], "crashed": crashed, "stderr_tail": r["stderr"][-300:] if crashed else ""}
    except BaseException as e:  # noqa
        return {"fatal": f"{type(e).__name__}: {e}\n{traceback.format_exc()}"}


def bounds(tier):
    return {"max_depth": 3 if tier == "quick" else 6, "initial_trees": list(INITIAL), "commands": [c[0] for c in COMMANDS]}


def _enc(files):
    return {p: (b if isinstance(b, bytes) else b.encode("utf-8")) for p, b in files.items()}


def run_custom(tier, seed):
    depth = 3 if tier == "quick" else 6
    agg = H._new_agg()
    seen = {}
    frontier = []
    for name, files in INITIAL.items():
        f = _enc(files)
        k = state_key(f)
        if k not in seen:
            seen[k] = (name,)
            frontier.append((f, (name,)))
    known = H.load_known_findings(PROPERTY)
    ctx = mp.get_context("fork")
    fixpoint = False
    level = 0
    with ctx.Pool(H.NPROC) as pool:
        while frontier and level < depth:
            level += 1
            tasks = [(f, ci) for f, _ in frontier for ci in range(len(COMMANDS))]
            results = pool.map(run_transition, tasks, chunksize=1)
            nxt = []
            for (f, path), res_chunk in zip(frontier, [results[i:i + len(COMMANDS)] for i in range(0, len(results), len(COMMANDS))]):
                for ci, res in enumerate(res_chunk):
                    if "fatal" in res:
                        raise H.HarnessError("transition failed: " + res["fatal"])
                    agg["transitions"] += 1
                    cname = COMMANDS[ci][0]
                    agg["outcomes"][f"{cname}:exit{res['exit']}:{'changed' if state_key(res['after']) != state_key(f) else 'same'}"] += 1
                    if res["crashed"]:
                        agg["extra"]["commands_with_traceback"] += 1
                    for kind, p in res["viol"]:
                        rec = {"kind": kind, "detail": {"path": p, "command": cname, "history": list(path)},
                               "case": {"initial": path[0], "history": list(path[1:]), "command": cname, "path": p}}
                        agg["viol_count"] += 1
                        agg["viol_kinds"][kind] += 1
                        kf = next((e["id"] for e in known if H.finding_matches(e, rec)), None)
                        if kf:
                            agg["extra"]["known:" + kf] += 1
                        agg["violations"].append(rec)
                    k2 = state_key(res["after"])
                    if k2 not in seen:
                        seen[k2] = path + (cname,)
                        nxt.append((res["after"], path + (cname,)))
            frontier = nxt
        fixpoint = not frontier
    agg["states"] = len(seen)
    agg["depth"] = level
    agg["cases"] = len(seen)
    agg["evals"] = agg["transitions"]
    agg["nontrivial"] = sum(1 for k, p in seen.items() if len(p) > 1)
    agg["extra"]["fixpoint_reached"] = 1 if fixpoint else 0
    agg["exhaustive"] = True
    longest = max(seen.values(), key=len)
    agg["samples"] = [{"initial_tree": longest[0], "command_sequence": list(longest[1:])},
                      {"initial_tree": "legacy-csv-with-rules", "files": sorted(INITIAL["legacy-csv-with-rules"])}]
    # keep the shortest example per (kind, command)
    best = {}
    for rec in agg["violations"]:
        key = (rec["kind"], rec["case"]["command"], rec["case"]["path"])
        if key not in best or len(rec["case"]["history"]) < len(best[key]["case"]["history"]):
            best[key] = rec
    agg["violations"] = list(best.values())
    return agg


def check_case(case):
    """Replay: run the recorded command sequence from the recorded initial tree; judge the last transition."""
    H.import_tally()
    files = _enc(INITIAL[case["initial"]])
    names = [c[0] for c in COMMANDS]
    for c in case["history"]:
        res = run_transition((files, names.index(c)))
        files = res["after"]
    res = run_transition((files, names.index(case["command"])))
    viol = [{"kind": k, "detail": {"path": p, "command": case["command"]}} for k, p in res["viol"] if p == case["path"]]
    return {"evals": 1, "nontrivial": 1, "outcomes": [], "violations": viol}
