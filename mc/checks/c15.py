"""C15 - an interrupted or failing migration never loses rules or strands the budget.

Crash / fault enumeration on the real migration code.  For each history (`tally up --migrate`, `tally init`,
run_migrations(config, skip_confirm=True)) on each budget variant, the command first runs to completion
under a file-system effect interposer (mc/core/faultfs.py) that numbers every create / flush / append /
rename / mkdir / remove in program order.  Then, for EVERY effect k: crash right after k (and, when k
lands buffered data, with the data torn to half and to nothing); and an OSError injected INSTEAD of k with
tally's own error handling continuing.  Every resulting tree is judged:
  (1) every byte string that was the content of a user file is still the content of some file
      (for settings.yaml: a prefix of it);
  (2) `tally up --format json` in a fresh process classifies the probe statement as before the command,
      or does so after the same command is re-run once without faults;
  (3) the tree never classifies everything as Unknown while a file holding the user's rules exists.
"""
import hashlib
import json
import os
import shutil
import tempfile

from mc.core import harness as H
from mc.core import proc
from mc.core.faultfs import FaultFS
from mc.checks import rules_common as R

PROPERTY = "C15"
LEVEL = "fault_enumeration"
DETERMINISM_CASES = 1
RULE = ("cases = 3 histories x budget variants (up --migrate: 2x2 backup/target-file variants, an earlier backup of the live CSV's size and time stamp; init: 3 settings variants x 2 x 2; layout migration: "
        "data/output present or not x ./tally absent/empty/non-empty, a budget that went through the CSV migration first, two half-migrated budgets whose ./tally already holds same-named files); per case every prefix of the recorded effect log is a crash point (x torn "
        "variants half/nothing for effects that land data) and every effect is an OSError injection point; evaluations = fault runs executed on the "
        "real code; non-trivial = fault runs whose resulting tree differs from both the initial and the completed tree, counted as distinct trees")
ASSUMPTIONS = ["a crash is modelled as: no further file-system effect reaches the disk (completed writes are durable; OS-level reordering is not modelled - tally never fsyncs)",
               "torn writes: the data of the in-flight close is cut to half or to nothing",
               "classification 'as before' = same (merchant, category, subcategory, tags) set in `tally up --format json`"]

STMT = "Date,Description,Amount\n01/10/2025,NETFLIX.COM,15.99\n01/11/2025,COFFEE SHOP,4.50\n02/11/2025,MYSTERY STORE 1234,25.00\n"
SRC = 'data_sources:\n  - name: Card\n    file: data/s.csv\n    format: "{date:%m/%d/%Y},{description},{amount}"\n'
SETTINGS_CSV = "year: 2025\n" + SRC + "# end of my settings\n"
SETTINGS_RULES = "year: 2025\nmerchants_file: config/merchants.rules\n" + SRC
CSV_RULES = "# legacy\nPattern,Merchant,Category,Subcategory,Tags\nNETFLIX,Netflix,Subs,Streaming,video\nCOFFEE,Coffee,Food,Cafe,\n"
RULES = '[Netflix]\nmatch: contains("NETFLIX")\ncategory: Subs\nsubcategory: Streaming\ntags: video\n\n[Coffee]\nmatch: contains("COFFEE")\ncategory: Food\nsubcategory: Cafe\n'
OLD_BAK = "Pattern,Merchant,Category,Subcategory\nPRECIOUS,Old Backup,Keep,Me\n"
OTHER_RULES = '# hand written\n[Precious]\nmatch: contains("PRECIOUS")\ncategory: Keep\n'


def budgets():
    out = []
    for bak in (0, 1):
        for tgt in (0, 1):
            f = {"config/settings.yaml": SETTINGS_CSV, "config/merchant_categories.csv": CSV_RULES, "data/s.csv": STMT}
            if bak:
                f["config/merchant_categories.csv.bak"] = OLD_BAK
            if tgt:
                f["config/merchants.rules"] = OTHER_RULES
            out.append({"history": "up-migrate", "name": f"csv bak={bak} rulesfile={tgt}", "files": f})
    # an earlier backup of exactly the size (and, like every file here, the time stamp) of the live CSV, with other rules in it
    f = {"config/settings.yaml": SETTINGS_CSV, "config/merchant_categories.csv": CSV_RULES,
         "config/merchant_categories.csv.bak": CSV_RULES.replace("NETFLIX,Netflix,Subs,Streaming,video", "PRECIOU,Oldbakk,Keep,Meplease_,video"), "data/s.csv": STMT}
    assert len(f["config/merchant_categories.csv.bak"]) == len(CSV_RULES) and f["config/merchant_categories.csv.bak"] != CSV_RULES
    out.append({"history": "up-migrate", "name": "csv, earlier backup of the same size and time stamp", "files": f})
    # settings.yaml that only MENTIONS the key in a comment; a budget whose config directory is not called "config"
    f = {"config/settings.yaml": SETTINGS_CSV + "# merchants_file: config/merchants.rules   (uncomment after migrating)\n",
         "config/merchant_categories.csv": CSV_RULES, "data/s.csv": STMT}
    out.append({"history": "up-migrate", "name": "csv, settings with a commented-out merchants_file", "files": f})
    f = {"conf/settings.yaml": SETTINGS_CSV, "conf/merchant_categories.csv": CSV_RULES, "data/s.csv": STMT}
    out.append({"history": "up-migrate", "name": "csv, config directory named conf", "files": f, "confdir": "conf"})
    # an unreferenced hand-written merchants.rules that holds no rule (only a variable and a transform), or does not load at all
    for label, txt in (("zero-rules", "# hand written, work in progress\nbig = amount > 100\nfield.description = trim(field.description)\n"),
                       ("unloadable", "# hand written\n[Precious\nmatch: contains(\"PRECIOUS\")\ncategory: Keep\n")):
        f = {"config/settings.yaml": SETTINGS_CSV, "config/merchant_categories.csv": CSV_RULES, "config/merchants.rules": txt, "data/s.csv": STMT}
        out.append({"history": "up-migrate", "name": f"csv, existing {label} merchants.rules", "files": f})
    # the layout migration of a budget that went through the CSV migration first (two-step history)
    for outp in (0, 1):
        f = {"config/settings.yaml": SETTINGS_CSV, "config/merchant_categories.csv": CSV_RULES, "data/s.csv": STMT}
        if outp:
            f["output/old_report.html"] = "<html>old report</html>\n"
        out.append({"history": "layout", "name": f"after up --migrate, output={outp}", "files": f, "prepare": ["up", "--migrate", "--summary"]})
    for st in ("without-merchants_file", "with-merchants_file", "absent"):
        for bak in (0, 1):
            for tgt in (0, 1):
                f = {"config/merchant_categories.csv": CSV_RULES, "data/s.csv": STMT}
                if st == "without-merchants_file":
                    f["config/settings.yaml"] = SETTINGS_CSV
                elif st == "with-merchants_file":
                    f["config/settings.yaml"] = SETTINGS_RULES
                if bak:
                    f["config/merchant_categories.csv.bak"] = OLD_BAK
                if tgt:
                    f["config/merchants.rules"] = RULES
                out.append({"history": "init", "name": f"settings {st} bak={bak} rulesfile={tgt}", "files": f})
    for data in (0, 1):
        for outp in (0, 1):
            for tally in ("absent", "empty", "nonempty"):
                f = {"config/settings.yaml": SETTINGS_RULES, "config/merchants.rules": RULES}
                if data:
                    f["data/s.csv"] = STMT
                if outp:
                    f["output/old_report.html"] = "<html>old report</html>\n"
                if tally == "empty":
                    f["tally/.keep"] = None          # directory only
                elif tally == "nonempty":
                    f["tally/notes.txt"] = "my notes\n"
                out.append({"history": "layout", "name": f"data={data} output={outp} tally={tally}", "files": f})
    # a budget found half-way: tally/ already holds data/ and output/ with same-named files of other bytes (what an interrupted earlier
    # migration plus a freshly dropped export leave behind); both generations of every file are user content
    for outp in (0, 1):
        f = {"config/settings.yaml": SETTINGS_RULES, "config/merchants.rules": RULES, "data/s.csv": STMT,
             "tally/data/s.csv": STMT.replace("\n", "\r\n"), "tally/data/older.csv": "Date,Description,Amount\n"}
        if outp:
            f["output/old_report.html"] = "<html>old report</html>\n"
            f["tally/output/old_report.html"] = "<html>older report</html>\n"
        out.append({"history": "layout", "name": f"half-migrated: same names under tally/, output={outp}", "files": f})
    return out


BUDGETS = budgets()


def bounds(tier):
    return {"cases": len(BUDGETS), "histories": ["tally up --migrate --summary", "tally init", "run_migrations(config, skip_confirm=True)"],
            "faults_per_effect": "crash after k; crash with torn half / nothing when k lands data; OSError instead of k; for a shutil.move step additionally the whole move failing (rename and copy fallback)"}


def gen_cases(tier):
    for i in range(len(BUDGETS)):
        yield {"budget": i}


def materialise(files):
    root = tempfile.mkdtemp(prefix="c15-", dir=H.TMP)
    for p, b in files.items():
        full = os.path.join(root, p)
        os.makedirs(os.path.dirname(full), exist_ok=True)
        if b is None:
            continue
        with open(full, "w", encoding="utf-8", newline="") as f:
            f.write(b)
        # every file of a starting tree carries one and the same modification time (a budget unpacked from an archive or copied with
        # its time stamps): the trees do not depend on how fast they were written
        os.utime(full, (1700000000, 1700000000))
    return root


def snapshot(root):
    out = {}
    for d, ds, fs in os.walk(root):
        for f in fs:
            full = os.path.join(d, f)
            with open(full, "rb") as fh:
                out[os.path.relpath(full, root)] = fh.read()
    return out


_CONFDIR = "config"      # set per case; budgets may keep their settings in a directory of another name


def _dirarg():
    return [] if _CONFDIR == "config" else [_CONFDIR]


def run_history(history, root, plan=None, intercept=True):
    """Run the command in a forked child (cwd=root) under the interposer; returns (result, effect log)."""
    log_path = tempfile.mktemp(prefix="c15log-", dir=H.TMP)
    holder = {}

    def pre():
        if intercept:
            holder["fs"] = FaultFS(root, plan).install()

    def post():
        fs = holder.get("fs")
        if fs:
            fs.uninstall()
            with open(log_path, "w") as f:
                json.dump({"log": fs.log, "crashed": fs.crashed}, f)

    if history == "up-migrate":
        r = proc.run_cli(["up"] + _dirarg() + ["--migrate", "--format", "json"], cwd=root, pre=pre, post=post)
    elif history == "init":
        r = proc.run_cli(["init"], cwd=root, pre=pre, post=post)
    else:
        def call():
            import tally.cli as cli
            cli.run_migrations(os.path.abspath("config"), skip_confirm=True)
        r = proc.run_cli(["update"], cwd=root, pre=pre, post=post, call=call)
    info = {"log": [], "crashed": False}
    if os.path.exists(log_path):
        with open(log_path) as f:
            info = json.load(f)
        os.unlink(log_path)
    return r, info


def classify(root):
    """`tally up --format json` in a fresh process; returns a comparable classification or a failure marker."""
    r = proc.run_cli(["up"] + _dirarg() + ["--format", "json"], cwd=root)
    return classification_of(r)


def classification_of(r):
    if r["exit"] != 0:
        return ("FAILED", r["exit"])
    try:
        data = proc.json_document(r["stdout"])
    except Exception:
        return ("UNPARSEABLE", r["stdout"][-100:])
    return tuple(sorted((m["name"], m["category"], m["subcategory"], tuple(sorted(m.get("tags", [])))) for m in data.get("merchants", [])))


def rules_on_disk(tree):
    for p, b in tree.items():
        base = os.path.basename(p)
        if base.startswith("merchant_categories.csv") or base.startswith("merchants.rules"):
            if b"NETFLIX" in b:
                return True
    return False


def _mask(path):
    """File names may carry a process id, a counter or a time stamp (temporary files, numbered backups): digit runs are masked so that
    two runs of the same case describe the same tree."""
    import re as _re
    return _re.sub(r"\d+", "#", path)


def tree_hash(tree):
    return hashlib.sha1(repr(sorted((_mask(p), hashlib.sha1(b).hexdigest()) for p, b in tree.items())).encode()).hexdigest()[:12]


def judge(history, before_files, before_class, root):
    """Oracle on one resulting tree (root is consumed: the re-run happens in place)."""
    viol = []
    tree = snapshot(root)
    contents = [c.replace(os.path.realpath(root).encode(), b"<ROOT>").replace(root.encode(), b"<ROOT>") for c in tree.values()]
    for p, txt in before_files.items():
        if txt is None:
            continue
        b = txt.encode("utf-8")
        if os.path.basename(p) == "settings.yaml":
            ok = any(c.startswith(b) for c in contents)
        else:
            ok = b in contents
        if not ok:
            viol.append(("user-content-lost", p))
    th = tree_hash(tree)
    if _failed(before_class):
        # the budget did not classify at all before the command (e.g. no settings.yaml): only content preservation applies
        return viol, th, True
    ok = {before_class, expected_classification()}
    now = classify(root)
    if now not in ok:
        if _unknown_only(now) and not _unknown_only(before_class) and rules_on_disk(tree):
            viol.append(("classifies-with-empty-rule-set-while-rules-exist", None))
        run_history(history, root, plan=None, intercept=False)
        again = classify(root)
        if again not in ok:
            viol.append(("stranded-after-rerun", {"before": before_class, "after_fault": now, "after_rerun": again}))
    return viol, th, now in ok


def _failed(c):
    return isinstance(c, tuple) and len(c) > 0 and c[0] in ("FAILED", "UNPARSEABLE")


def _unknown_only(c):
    return isinstance(c, tuple) and len(c) > 0 and not _failed(c) and all(m[1] == "Unknown" for m in c)


_EXPECTED = None


def expected_classification():
    """Classification of the probe statement with the user's rules (a healthy budget holding the same rules)."""
    global _EXPECTED
    if _EXPECTED is None:
        global _CONFDIR
        root = materialise({"config/settings.yaml": SETTINGS_RULES, "config/merchants.rules": RULES, "data/s.csv": STMT})
        saved, _CONFDIR = _CONFDIR, "config"
        try:
            _EXPECTED = classify(root)
        finally:
            _CONFDIR = saved
        shutil.rmtree(root, ignore_errors=True)
        if _failed(_EXPECTED) or _unknown_only(_EXPECTED):
            raise H.HarnessError(f"healthy budget does not classify: {_EXPECTED}")
    return _EXPECTED


def plans_for(log):
    plans = []
    for e in log:
        k = e["k"]
        if e.get("failed"):
            continue           # the system call failed by itself in the fault-free run: no state change to interrupt
        plans.append({"crash_after": k})
        if e["kind"] in ("flush", "append"):
            plans.append({"crash_after": k, "tear": "half"})
            plans.append({"crash_after": k, "tear": "none"})
        plans.append({"oserror_at": k})
        if e["kind"] == "rename" and e.get("in_move"):
            # the "move" step as a whole fails (shutil.move's copy fallback fails too), not only its rename system call
            plans.append({"oserror_at": k, "whole_move": True})
    return plans


def check_case(case):
    global _CONFDIR
    b = BUDGETS[case["budget"]]
    _CONFDIR = b.get("confdir", "config")
    try:
        return _check_case(case, b)
    finally:
        _CONFDIR = "config"


def _check_case(case, b):
    history, files0 = b["history"], b["files"]
    only_plan = case.get("plan")
    viol = []
    evals = 0
    prepare = b.get("prepare")

    def materialise(fs):            # noqa: shadows the module function on purpose - every tree of this case goes through the preparation
        root = globals()["materialise"](fs)
        if prepare:
            # an earlier, fault-free command the budget went through (run in place: paths it wrote belong to THIS tree)
            proc.run_cli(prepare, cwd=root)
        return root

    # baseline: classification before the command
    root0 = materialise(files0)
    before_class = classify(root0)
    init_tree = snapshot(root0)
    # what the user has in the tree the faulted command starts from
    files = ({p: c.decode("utf-8", "replace").replace(os.path.realpath(root0), "<ROOT>").replace(root0, "<ROOT>") for p, c in init_tree.items()}
             if prepare else files0)
    shutil.rmtree(root0, ignore_errors=True)
    # reference run under the interposer, and without it (transparency)
    root1 = materialise(files0)
    r1, info = run_history(history, root1, plan=None, intercept=True)
    done_tree = snapshot(root1)
    root2 = materialise(files0)
    r2, _ = run_history(history, root2, plan=None, intercept=False)
    plain_tree = snapshot(root2)
    shutil.rmtree(root2, ignore_errors=True)
    def _norm(tree, root):          # file contents may legitimately mention the tree's own location
        return {p: c.replace(os.path.realpath(root).encode(), b"<ROOT>").replace(root.encode(), b"<ROOT>") for p, c in tree.items()}
    if _norm(done_tree, root1) != _norm(plain_tree, root2) or r1["exit"] != r2["exit"]:
        shutil.rmtree(root1, ignore_errors=True)
        raise H.HarnessError(f"interposer is not transparent for {b['name']}: {sorted(set(done_tree) ^ set(plain_tree))} exits {r1['exit']}/{r2['exit']} "
                             f"stderr={r1['stderr'][-300:]}")
    touched = {e["path"] for e in info["log"]} | {e["src"] for e in info["log"] if "src" in e}
    changed = {p for p in set(done_tree) | set(init_tree) if _norm(done_tree, root1).get(p) != _norm(init_tree, root0).get(p)}
    unowned = [p for p in changed if not any(p == t or p.startswith(t + os.sep) or t.startswith(p) for t in touched)]
    if unowned:
        shutil.rmtree(root1, ignore_errors=True)
        raise H.HarnessError(f"file-system change not explained by any intercepted effect: {unowned} (history {history}, {b['name']})")
    # the report printed by the migrating run itself classifies with the user's rules too
    if history == "up-migrate" and not _failed(before_class):
        own = classification_of(r1)
        if own not in (before_class, expected_classification()) and not _failed(own):
            viol.append({"kind": "migrating-run-classifies-differently", "detail": {"plan": "no fault (run to completion)", "history": history, "budget": b["name"],
                                                                                    "before": before_class, "report_of_the_migrating_run": own},
                         "case": {"budget": case["budget"], "plan": {}}})
    # the completed run itself
    v0, _, _ = judge(history, files, before_class, root1)
    for kind, d in v0:
        viol.append({"kind": kind, "detail": {"plan": "no fault (run to completion)", "history": history, "budget": b["name"], "what": d,
                                              "effects": info["log"]}, "case": {"budget": case["budget"], "plan": {}}})
    shutil.rmtree(root1, ignore_errors=True)
    trees = set()
    outcomes = set()
    plans = plans_for(info["log"]) if only_plan is None else [only_plan]
    if only_plan == {}:
        plans = []
    for plan in plans:
        root = materialise(files0)
        try:
            r, inf = run_history(history, root, plan=plan, intercept=True)
            evals += 1
            if "crash_after" in plan and not inf["crashed"]:
                raise H.HarnessError(f"plan {plan} did not crash (replay diverged): log={inf['log']}")
            v, th, same = judge(history, files, before_class, root)
            trees.add(th)
            outcomes.add(("same-classification" if same else "recovered-by-rerun") if not v else v[0][0])
            for kind, d in v:
                e = info["log"][plan.get("crash_after", plan.get("oserror_at"))]
                viol.append({"kind": kind, "detail": {"plan": plan, "effect": e, "history": history, "budget": b["name"], "what": d,
                                                      "effects": [f"{x['k']}:{x['kind']}:{x['path']}" for x in info["log"]]},
                             "case": {"budget": case["budget"], "plan": plan}})
        finally:
            shutil.rmtree(root, ignore_errors=True)
    init_h = tree_hash(init_tree)
    done_h = tree_hash(done_tree)
    nontrivial = len(trees - {init_h, done_h})
    return {"evals": evals, "nontrivial": nontrivial, "outcomes": sorted(outcomes), "violations": viol,
            "extra": {"crash_points": sum(1 for p in plans if "crash_after" in p), "oserror_points": sum(1 for p in plans if "oserror_at" in p),
                      "effects_logged": len(info["log"])},
            "sample_repr": {"history": history, "budget": b["name"], "effects": [f"{x['k']}:{x['kind']}:{_mask(x['path'])}" for x in info["log"]]}}
