"""C14 - migrating merchant_categories.csv to merchants.rules preserves classification.

Exhaustive: every single-row CSV over the full product {24 regex patterns} x {20 modifier forms} x
{merchant names} x {category set / empty} x {tags}, plus every ordered pair (triple in thorough) over a
reduced row alphabet; each file x the transactions its patterns and modifiers can distinguish (descriptions
x boundary amounts x boundary dates).  The real migration (_migrate_csv_to_rules) is run in a scratch
budget, the generated merchants.rules must load, and normalize_merchant must classify every transaction
identically through the CSV rules, the migrated file, and load_csv_as_engine.
"""
import contextlib
import functools
import io
import itertools
import os
import shutil

from mc.core import harness as H
from mc.checks import rules_common as R

PROPERTY = "C14"
LEVEL = "exploration"
RULE = ("cases = (a) every one-row CSV rule file over 24 patterns (plain, lookahead, \\b, back-reference, anchors, alternation, leading "
        "parenthesis, .*, char class, double quote, apostrophe, escaped +, literal backslash, \\d{3}, ' and ' inside a pattern, invalid regex) x "
        "20 modifier forms (none, amount > >= < <= = range, date = range lastNdays, month, two combined) x 4 merchant names x category "
        "set/empty x 4 tag forms (incl. a tag containing a comma); (b) every ordered pair (quick) / triple (thorough) over a 29-row reduced alphabet incl. comment and blank "
        "lines. Each file is classified on descriptions x boundary amounts x boundary dates (only the dimensions its rows can "
        "distinguish). non-trivial = file whose rules match at least one transaction and not all of them; files distinct by construction")
ASSUMPTIONS = ["a CSV file is 'accepted' when load_merchant_rules returns without raising",
               "date.today() is fixed to 2025-06-15 for [date:lastNdays]",
               "merchant names/tags without newlines; Unknown merchant names are compared as produced"]

PATTERNS = ["NETFLIX", r"UBER\s(?!EATS)", r"\bUBER\b", r"(\w)\1", "^AMAZON", "GAS$", "AMAZON|AMZN", "(AMAZON|AMZN)", "COST.*GAS",
            "[A-C]OSTCO", 'SAY "HI"', "O'REILLY", r"C\+\+", r"A\\B", r"\d{3}", "BED and BATH", "NETFLIX(",
            'PIZZA" #\\d+', r"ACME INC\.*", ".*GAS.*", r"DOTS\.*?",
            # non-ASCII: a character outside the BMP; characters whose upper-case form is longer ('ß' -> 'SS')
            "PIZZA \U0001F355", "STRASSE", "Straße"]
MODS = ["", "[amount>100]", "[amount>=100]", "[amount<100]", "[amount<=100]", "[amount=99.75]", "[amount:50-200]",
        "[date=2025-01-15]", "[date:2025-01-01..2025-01-31]", "[month=12]", "[date:last30days]",
        "[amount>100][month=1]", "[amount:50-200][date:2025-01-01..2025-01-31]", "[amount>100][date:last30days]", "[date:last30days][month=1]",
        # whole calendar periods: one year, two years (one month is above)
        "[date:2025-01-01..2025-12-31]", "[date:2024-01-01..2025-12-31]",
        # operands with more than six significant digits (exact rendering of the number matters)
        "[amount>12345.67]", "[amount=12345.67]", "[amount:1000000.5-2500000.25]"]
NAMES = ["Netflix", "A, B", "#Hash", " Padded "]
TAGS = ["", "a|b", "A", "x,y|z"]
DESCS = ["NETFLIX.COM 123", "UBER EATS", "UBER TRIP 77", "UBERX", "AMAZON MKTP", "PAY AMZN", "COSTCO GAS", "BLUE BOTTLE COFFEE",
         'SAY "HI" CAFE', "O'REILLY AUTO", "C++ BOOKS", "A\\B STORE", "cost plus gas", "BED and BATH", "AB",
         '12" PIZZA" #55', "ACME INC...", "ACME INC", "DOTS", "DOTS..", "pizza \U0001F355 night", "straße 5", "HAUPTSTRASSE 7"]
AMTS = [-50.0, 50.0, 99.75, 99.755, 100.0, 100.25, 200.0, 200.25, 12345.67, 12345.68, 12345.7, 1000000.25, 1000000.5, 2500000.25, 2500000.5]
DATES = [None, "2024-12-31", "2025-01-01", "2025-01-15", "2025-01-31", "2025-02-01", "2025-05-15", "2025-05-16", "2025-06-15"]

REDUCED = ([{"pattern": p, "merchant": f"M{i}", "category": "Cat", "subcategory": f"S{i}", "tags": ""} for i, p in
            enumerate(["NETFLIX", r"UBER\s(?!EATS)", "UBER", "AMAZON|AMZN", "COST.*GAS", "[A-C]OSTCO", r"\d{3}", "NETFLIX("])] +
           [{"pattern": "COSTCO" + m, "merchant": f"C{i}", "category": "Shop", "subcategory": f"T{i}", "tags": "t%d" % i} for i, m in
            enumerate(["[amount>100]", "[amount<=100]", "[amount=99.75]", "[amount:50-200]", "[date=2025-01-15]",
                       "[date:2025-01-01..2025-01-31]", "[month=12]", "[amount>100][month=1]"])] +
           [{"pattern": "UBER", "merchant": "UberTag", "category": "", "subcategory": "", "tags": "ride|Car"},
            {"pattern": "NETFLIX|AMAZON", "merchant": "TagOnly2", "category": "", "subcategory": "", "tags": "online"},
            {"pattern": "COSTCO", "merchant": "Costco Plain", "category": "Food", "subcategory": "", "tags": "a|b"},
            {"pattern": "GAS$", "merchant": "Gas", "category": "Auto", "subcategory": "Fuel", "tags": ""},
            # names and tags containing " #" (never a comment inside a value)
            {"pattern": "COSTCO", "merchant": "Sharp #1", "category": "Housing #2", "subcategory": "Rent #3", "tags": "home| #fixed"},
            # rows that are identical except for their modifiers
            {"pattern": "COSTCO[month=1]", "merchant": "Same", "category": "Shop", "subcategory": "Same", "tags": "same"},
            {"pattern": "COSTCO[month=12]", "merchant": "Same", "category": "Shop", "subcategory": "Same", "tags": "same"},
            {"pattern": "COSTCO[amount>100]", "merchant": "Same", "category": "Shop", "subcategory": "Same", "tags": "same"},
            # rows that are identical except for their patterns (no modifiers): a capturing group in one, a numbered back-reference in the other
            {"pattern": "(AMAZON|AMZN) MKTP", "merchant": "Twin", "category": "Shop", "subcategory": "Twin", "tags": "tw"},
            {"pattern": r"(\w)\1", "merchant": "Twin", "category": "Shop", "subcategory": "Twin", "tags": "tw"},
            # short rows (trailing cells absent) and names padded with blanks
            {"pattern": "NETFLIX", "merchant": "Short3", "category": "Subs", "cells": 3},
            {"pattern": "UBER", "merchant": "Short2", "cells": 2},
            {"pattern": "COSTCO", "merchant": " Padded Name ", "category": " Padded Cat ", "subcategory": " Padded Sub ", "tags": " t1 | t2 "}])


# a small family of three-row files (also in the quick tier): two categories interleaved, general and specific patterns overlapping -
# the order of the rows in the migrated file is the order of the CSV
TRI = [{"pattern": "COSTCO", "merchant": "Costco", "category": "Food", "subcategory": "Grocery", "tags": ""},
       {"pattern": r"COSTCO\s+GAS", "merchant": "Costco Gas", "category": "Transport", "subcategory": "Fuel", "tags": "car"},
       {"pattern": "NETFLIX", "merchant": "Netflix", "category": "Food", "subcategory": "Odd", "tags": ""},
       {"pattern": "GAS", "merchant": "Any Gas", "category": "Transport", "subcategory": "Gas", "tags": ""},
       {"pattern": "AMAZON|COSTCO", "merchant": "Big Box", "category": "Shopping", "subcategory": "", "tags": "bulk"},
       {"pattern": ".*", "merchant": "Everything", "category": "Food", "subcategory": "Misc", "tags": ""}]


def bounds(tier):
    return {"single_row_product": len(PATTERNS) * len(MODS) * len(NAMES) * 2 * len(TAGS), "reduced_alphabet": len(REDUCED),
            "sequence_len": 2 if tier == "quick" else 3, "descriptions": len(DESCS), "amounts": AMTS, "dates": DATES}


def gen_cases(tier):
    for p, m, n, c, t in itertools.product(range(len(PATTERNS)), range(len(MODS)), range(len(NAMES)), (1, 0), range(len(TAGS))):
        yield {"rows": [{"pattern": PATTERNS[p] + MODS[m], "merchant": NAMES[n], "category": "Cat" if c else "",
                         "subcategory": "Sub" if c else "", "tags": TAGS[t]}], "comments": False}
    for seq in itertools.permutations(range(len(TRI)), 3):
        yield {"rows": [TRI[i] for i in seq], "comments": False}
    k = 2 if tier == "quick" else 3
    for n in range(2, k + 1):
        for seq in itertools.permutations(range(len(REDUCED)), n):
            yield {"rows": [REDUCED[i] for i in seq], "comments": (sum(seq) % 2 == 0)}


def txns_for(rows):
    pats = "".join(r["pattern"] for r in rows)
    amts = AMTS if "[amount" in pats else [100.25]
    dates = DATES if ("[date" in pats or "[month" in pats) else ["2025-01-15"]
    return [{"description": d, "amount": a, "date": dd, "field": None, "source": "Bank"} for d in DESCS for a in amts for dd in dates]


def classify_all(rules, transforms, txns):
    out = []
    for t in txns:
        try:
            r = R.normalize_result(rules, transforms, t)
            out.append((r["merchant"], r["category"], r["subcategory"], tuple(r["tags"])))
        except Exception as e:  # noqa
            out.append(("EXC", type(e).__name__, str(e)[:80], ()))
    return out


def check_case(case):
    from tally.merchant_utils import load_merchant_rules
    from tally.merchant_engine import csv_to_merchants_content, parse_merchants, load_csv_as_engine
    from tally import cli
    rows = case["rows"]
    viol = []
    base = os.path.join(R.scratch(), "budget")
    shutil.rmtree(base, ignore_errors=True)
    cfg = os.path.join(base, "config")
    os.makedirs(cfg)
    csv_path = os.path.join(cfg, "merchant_categories.csv")
    text = R.render_csv(rows, comments=case.get("comments", False))
    with open(csv_path, "w", encoding="utf-8", newline="") as f:
        f.write(text)
    with open(os.path.join(cfg, "settings.yaml"), "w") as f:
        f.write("year: 2025\ndata_sources: []\n")
    H.reset_state()
    try:
        loaded = load_merchant_rules(csv_path)
    except Exception as e:  # noqa
        return {"evals": 0, "nontrivial": 0, "outcomes": ["csv-rejected"], "violations": [], "sample_repr": {"csv": text, "rejected": str(e)}}
    if not loaded:
        return {"evals": 0, "nontrivial": 0, "outcomes": ["csv-empty"], "violations": [], "sample_repr": {"csv": text}}
    txns = txns_for(rows)
    rules, transforms = R.load_path(csv_path)
    before = classify_all(rules, transforms, txns)
    # third consumer: CSV loaded as an engine
    H.reset_state()
    try:
        eng = load_csv_as_engine(csv_path)
        via_engine = []
        for t in txns:
            r = R.engine_result(eng, t)
            via_engine.append((r["merchant"], r["category"], r["subcategory"], tuple(r["tags"])) if r["matched"] else None)
    except Exception as e:  # noqa
        via_engine = None
        viol.append({"kind": "load_csv_as_engine-failed", "detail": f"{type(e).__name__}: {e}"})
    # the content generator alone
    try:
        content = csv_to_merchants_content(loaded)
        parse_merchants(content)
    except Exception as e:  # noqa
        viol.append({"kind": "generated-rules-do-not-load", "detail": f"{type(e).__name__}: {e}"})
    # the real migration
    H.reset_state()
    buf = io.StringIO()
    mig = getattr(cli, "_migrate_csv_to_rules", None)
    ok = None
    if mig is not None:
        try:
            with contextlib.redirect_stdout(buf):
                ok = mig(csv_path, cfg, backup=True)
        except TypeError:
            # a private helper may change its signature at any time: fall through to the user-level route
            ok = None
            for leftover in ("merchants.rules",):
                if os.path.exists(os.path.join(cfg, leftover)):
                    os.remove(os.path.join(cfg, leftover))
    if ok is None:
        # the helper is private; if a refactor moved it, run the migration the way a user does
        from mc.core import proc
        r = proc.run_cli(["up", "--migrate", "--summary"], cwd=base)
        buf.write(r["stdout"][-300:] + r["stderr"][-300:])
        ok = os.path.exists(os.path.join(cfg, "merchants.rules"))
    new_path = os.path.join(cfg, "merchants.rules")
    evals = 0
    outcomes = set()
    after = None
    if not ok or not os.path.exists(new_path):
        viol.append({"kind": "migration-failed", "detail": buf.getvalue()[-300:]})
    else:
        from tally.merchant_engine import load_merchants_file
        from pathlib import Path
        try:
            load_merchants_file(Path(new_path))
            loads = True
        except Exception as e:  # noqa
            loads = False
            if not any(v["kind"] == "generated-rules-do-not-load" for v in viol):
                viol.append({"kind": "generated-rules-do-not-load", "detail": f"{type(e).__name__}: {e}"})
        if loads:
            rules2, transforms2 = R.load_path(new_path)
            after = classify_all(rules2, transforms2, txns)
            nmis = 0
            for t, x, y in zip(txns, before, after):
                evals += 1
                outcomes.add(x[1] or "tag-only")
                if (x[0], x[1], x[2], set(x[3])) != (y[0], y[1], y[2], set(y[3])):
                    nmis += 1
                    if nmis <= 3:
                        viol.append({"kind": "classification-changed-by-migration", "detail": {"txn": t, "csv": x, "migrated": y,
                                                                                              "migrated_file": open(new_path, encoding="utf-8").read()[-400:]}})
    if via_engine is not None:
        nmis = 0
        for t, x, y in zip(txns, before, via_engine):
            evals += 1
            if y is None:
                same = x[1] == "Unknown"
            else:
                same = (x[0], x[1], x[2]) == y[:3]
            if not same:
                nmis += 1
                if nmis <= 2:
                    viol.append({"kind": "csv-engine-differs-from-csv-rules", "detail": {"txn": t, "csv": x, "engine": y}})
    H.reset_state()
    cats = {x[1] for x in before}
    nontrivial = 1 if (len({(x[0], x[1], x[3]) for x in before}) >= 2) else 0
    return {"evals": evals, "nontrivial": nontrivial, "outcomes": sorted(outcomes)[:4], "violations": viol,
            "sample_repr": {"csv": text, "transactions": len(txns)}}
