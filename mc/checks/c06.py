"""C06 - totals conserve money: each transaction is counted once, in exactly one bucket.

Exhaustive: every multiset of <= K classified transactions over a 26-element alphabet; for each
multiset every permutation and every assignment of the transactions to two data sources; the real
analyze_transactions() is run on each arrangement and compared with the reference bucket sums and
with every other arrangement of the same multiset.
"""
import datetime as dt
import itertools

from mc.core import harness as H
from mc.ref import money

PROPERTY = "C06"
LEVEL = "exploration"
RULE = ("cases = all multisets of size 1..K (K=3 quick, 4 thorough) over a 26-transaction alphabet "
        "(5 amounts incl. 0 and both signs x 10 tag lists covering every special-tag precedence class and letter case, "
        "4 merchants (two with empty / blank raw descriptions), 2 categories, 2 months); each case runs analyze_transactions on every permutation x every "
        "2-source labelling. non-trivial = multiset with >=2 transactions that fall into >=2 different buckets or "
        "carry >=2 special tags on one transaction; multisets are distinct by construction")
ASSUMPTIONS = ["amounts are multiples of 0.25 so float sums are exact and order-independent",
               "reference bucket rule is the property statement: income > investment > transfer > sign, tags case-insensitive"]

D1 = dt.datetime(2025, 1, 10)
D2 = dt.datetime(2025, 2, 20)

_TAGSETS = [
    None,                       # key missing
    [],
    ["income"],
    ["Transfer"],
    ["INVESTMENT"],
    ["income", "transfer"],
    ["transfer", "Investment"],
    ["investment", "INCOME"],
    ["food"],
    ["food", "Income"],
]
_AMOUNTS = [-20.5, -0.25, 0.0, 0.25, 100.0]


def _alphabet():
    # 20 representatives: every tag list with a positive and a negative amount, zero amounts on the
    # sign-sensitive classes; merchants/categories/months vary so that breakdown keys collide and differ.
    out = []
    i = 0
    for ti, tags in enumerate(_TAGSETS):
        for amt in (100.0, -20.5):
            out.append((amt, ti, i % 2, (i // 2) % 2, (i // 3) % 2))
            i += 1
    # replace four of them by zero / quarter amounts on sign-sensitive classes
    out[2] = (0.0, 1, 0, 1, 0)       # [] zero
    out[7] = (0.0, 3, 1, 0, 1)       # transfer zero
    out[16] = (0.25, 8, 0, 0, 0)     # ordinary tag, quarter
    out[1] = (-0.25, 0, 1, 1, 1)     # missing tags key, small credit
    # transactions whose raw description is empty / blank (a description template can produce " "): counted like any other
    out += [(100.0, 1, 2, 0, 1), (-20.5, 8, 3, 1, 0), (0.25, 2, 3, 0, 1)]
    # amounts with more than two decimals (exact binary fractions): every total carries them in full
    out += [(0.125, 1, 0, 0, 0), (-0.375, 8, 1, 1, 1), (10.0625, 3, 0, 1, 0)]
    return out


ALPHABET = _alphabet()
MERCHANTS = ["M1", "M2", "M3", "M4"]
RAW_BLANK = {2: "", 3: "  "}
CATS = [("Food", "Grocery"), ("Bills", "Power")]


def mk_txn(code, source):
    amt, ti, mi, ci, di = code
    t = {"amount": amt, "merchant": MERCHANTS[mi], "category": CATS[ci][0], "subcategory": CATS[ci][1],
         "date": D1 if di == 0 else D2, "description": MERCHANTS[mi], "raw_description": RAW_BLANK.get(mi, f"RAW {MERCHANTS[mi]} {amt}"),
         "source": source}
    if _TAGSETS[ti] is not None:
        t["tags"] = list(_TAGSETS[ti])
    return t


def bounds(tier):
    return {"max_multiset_size": 3 if tier == "quick" else 4, "alphabet": len(ALPHABET), "sources": 2}


def gen_cases(tier):
    k = 3 if tier == "quick" else 4
    for n in range(1, k + 1):
        for combo in itertools.combinations_with_replacement(range(len(ALPHABET)), n):
            yield list(combo)


def figures(stats):
    """The order-independent figures the property talks about."""
    bm = {m: (round(d["total"], 6), d["count"]) for m, d in stats["by_merchant"].items()}
    bc = {f"{k[0]}/{k[1]}": (round(d["total"], 6), d["count"]) for k, d in stats["by_category"].items()}
    return {
        "income": stats["income_total"], "investment": stats["investment_total"],
        "transfer_in": stats["transfers_in"], "transfer_out": stats["transfers_out"],
        "spending": stats["spending_total"], "credits": stats["credits_total"],
        "cash_flow": stats["cash_flow"], "transfers_net": stats["transfers_net"],
        "count": stats["count"], "total": stats["total"],
        "by_merchant": bm, "by_category": bc, "by_month": dict(stats["by_month"]),
    }


def check_case(case):
    from tally.analyzer import analyze_transactions
    codes = [ALPHABET[i] for i in case]
    n = len(codes)
    viol = []
    evals = 0
    base = [mk_txn(c, "A") for c in codes]
    ref = money.totals(base)
    buckets = sorted({money.bucket(t["amount"], t.get("tags")) for t in base})
    first_fig = None
    for perm in sorted(set(itertools.permutations(range(n)))):
        for labels in itertools.product("AB", repeat=n):
            txns = [mk_txn(codes[p], labels[j]) for j, p in enumerate(perm)]
            # a partition across sources is: all of source A's rows, then source B's (as `tally up` concatenates)
            txns.sort(key=lambda t: t["source"])
            try:
                stats = analyze_transactions(txns)
            except Exception as e:  # noqa
                viol.append({"kind": "exception", "detail": {"perm": perm, "labels": labels, "exc": f"{type(e).__name__}: {e}"}})
                continue
            evals += 1
            fig = figures(stats)
            for b in money.BUCKETS + ("cash_flow", "transfers_net"):
                if fig[b] != ref[b]:
                    viol.append({"kind": "bucket-total", "detail": {"figure": b, "expected": ref[b], "actual": fig[b],
                                                                     "perm": perm, "labels": labels}})
            if fig["count"] != n:
                viol.append({"kind": "count", "detail": {"expected": n, "actual": fig["count"]}})
            sm = sum(v[0] for v in fig["by_merchant"].values())
            sc = sum(v[0] for v in fig["by_category"].values())
            smo = sum(fig["by_month"].values())
            if not (sm == sc == smo):
                viol.append({"kind": "breakdown-sums-differ", "detail": {"by_merchant": sm, "by_category": sc, "by_month": smo,
                                                                          "perm": perm, "labels": labels}})
            # "the same grand total": the one the six buckets define (income and investment as magnitudes, transfers
            # and refunds with their direction) - a transaction must not enter a breakdown with another sign or size
            # than the one it enters its bucket with
            signed = ref["income"] + ref["investment"] + ref["transfer_in"] - ref["transfer_out"] + ref["spending"] - ref["credits"]
            if sm != signed:
                viol.append({"kind": "breakdowns-differ-from-buckets", "detail": {"buckets_signed": signed, "by_merchant": sm, "perm": perm, "labels": labels}})
            cm = sum(v[1] for v in fig["by_merchant"].values())
            cc = sum(v[1] for v in fig["by_category"].values())
            if cm != n or cc != n:
                viol.append({"kind": "breakdown-counts", "detail": {"by_merchant": cm, "by_category": cc, "expected": n}})
            if first_fig is None:
                first_fig = fig
            elif fig != first_fig:
                diff = [k for k in fig if fig[k] != first_fig[k]]
                viol.append({"kind": "order-or-partition-dependence", "detail": {"differs": diff, "perm": perm, "labels": labels,
                                                                                 "a": {k: first_fig[k] for k in diff}, "b": {k: fig[k] for k in diff}}})
            if len(viol) > 20:
                break
        if len(viol) > 20:
            break
    multi_special = any(len({str(x).lower() for x in (t.get("tags") or [])} & {"income", "investment", "transfer"}) >= 2 for t in base)
    nontrivial = 1 if (n >= 2 and (len(buckets) >= 2 or multi_special)) else 0
    return {"evals": evals, "nontrivial": nontrivial, "outcomes": ["+".join(buckets)], "violations": viol,
            "sample_repr": {"multiset": [ {"amount": c[0], "tags": _TAGSETS[c[1]], "merchant": MERCHANTS[c[2]],
                                           "category": CATS[c[3]][0], "month": "2025-01" if c[4] == 0 else "2025-02"} for c in codes]}}
