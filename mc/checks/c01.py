"""C01 - in first-match mode the first matching categorising rule decides merchant/category/subcategory.

Exhaustive: every sequence of <= K distinct rules over a 16-block .rules alphabet x 4 preambles, and every
sequence of <= K rows over a 12-row legacy-CSV alphabet; each file x every transaction of a 72-element
alphabet, through MerchantEngine.match and through the get_all_rules/get_transforms/normalize_merchant
path that `tally up` uses (files really written to disk and loaded).
"""
import functools
import itertools

from mc.core import harness as H
from mc.checks import rules_common as R

PROPERTY = "C01"
LEVEL = "exploration"
RULE = ("cases = every ordered sequence of 1..K distinct blocks (K=3 quick, 4 thorough) over 17 .rules blocks "
        "(10 categorising: contains/regex/and-not/amount/top-level variable/let/field/source/date; 2 tag-only; 1 unevaluable; 1 never-matching rule whose let: shadows a global; 1 rule reading a name only other rules bind) "
        "x 4 preambles (none, variable, description transform), plus every ordered sequence of 1..K rows over 13 legacy CSV rows "
        "(regex, lookahead, alternation, leading parenthesis, char class, amount/date/month modifiers, tag-only row, invalid regex); each file is run on 108 "
        "transactions (9 descriptions x 3 amounts x 4 date/field/source contexts) through 2-3 public entry points, small files also as one statement (memo / type / location columns) through parse_generic_csv. "
        "non-trivial = file in which, for some transaction, >=2 rules are true or a true tag-only rule precedes the winner; files are distinct by construction")
ASSUMPTIONS = ["truth of one .rules condition is taken from the real evaluator on the one-rule file with the same preamble; for variable-free conditions it must also equal the reference interpreter's value where that is defined (C04 judges meaning in depth)",
               "truth of a legacy CSV row is computed independently: re.search(regex, description, re.I) and documented modifier meaning",
               "process-global caches are reset between files (C07 judges history dependence)"]

# ---------------------------------------------------------------------------------------------- alphabets
RULES = [
    {"name": "Netflix", "match": 'contains("NETFLIX")', "category": "Subs", "subcategory": "Streaming"},
    {"name": "Uber", "match": 'contains("UBER")', "category": "Transport", "subcategory": "Ride"},
    {"name": "UberNoEats", "match": 'contains("UBER") and not contains("EATS")', "category": "Transport", "subcategory": "Rideshare",
     "merchant": "Uber Ride"},
    {"name": "Amazon", "match": 'regex("AMAZON|AMZN")', "category": "Shopping", "subcategory": "Online", "tags": "prime"},
    {"name": "Big", "match": "amount > 100", "category": "Big"},
    {"name": "ByVar", "match": "is_large", "category": "Large", "subcategory": "Var"},
    {"name": "ByLet", "let": [("m", 'extract("(\\\\d+)")')], "match": 'm != ""', "category": "Numbered",
     "fields": [("num", "m")]},
    {"name": "Wire", "match": 'field.type == "WIRE"', "category": "Bank", "subcategory": "Wire"},
    {"name": "FromAmex", "match": 'source == "Amex"', "category": "Card", "subcategory": "Amex"},
    {"name": "Y2025", "match": 'date >= "2025-01-01"', "category": "Y2025"},
    {"name": "TagLarge", "match": "amount > 100", "tags": "large"},
    {"name": "TagRide", "match": 'contains("UBER")', "tags": "ride, {source}"},
    {"name": "Broken", "match": "field.nope == 1", "category": "Bad", "subcategory": "Bad"},
    # a never-matching rule whose let: shadows the top-level variable is_large and binds m
    {"name": "LetShadow", "let": [("is_large", "amount > 100000"), ("m", '"77"')], "match": 'is_large and contains("NOPE")',
     "category": "Never"},
    # reads a name that only other rules' let: bindings define; unknown here, so it can never match
    {"name": "UsesM", "match": 'm == "77"', "category": "LeakCat"},
    # un-parenthesised and/or mix: only the `or` branch is true for AMAZON rows
    {"name": "AndOr", "match": 'contains("UBER") and contains("EATS") or contains("AMAZON")', "category": "Mixed", "subcategory": "AndOr"},
    # substring alternatives holding regex metacharacters: literal text, true only for "NETFLIX.COM 123" and "SQ *NETFLIX"
    {"name": "AnyOfLit", "match": 'anyof("AMAZON.MKTP", "UBER+", "NETFLIX.COM", "SQ *N")', "category": "Literal", "subcategory": "AnyOf"},
]
# rules whose condition uses no variable / let binding: their truth is also evaluated directly with evaluate_transaction
PLAIN = [i for i, r in enumerate(RULES) if not r.get("let") and r["name"] not in ("ByVar", "UsesM")]
PREAMBLES = [
    [],
    ["is_large = amount > 100"],
    ['field.description = regex_replace(field.description, "^SQ \\\\*", "")'],
    # a transform that fails for transactions without a memo field, followed by one that decides matching
    ['field.memo = trim(field.memo)', 'field.description = regex_replace(field.description, "^SQ \\\\*", "")'],
]
STRIPS_SQ = {2, 3}     # preambles whose transforms rewrite "SQ *X" to "X" (known independently of tally)

CSVROWS = [
    {"pattern": "NETFLIX", "merchant": "Netflix", "category": "Subs", "subcategory": "Streaming"},
    {"pattern": r"UBER\s(?!EATS)", "merchant": "Uber", "category": "Transport", "subcategory": "Ride"},
    {"pattern": "AMAZON|AMZN", "merchant": "Amazon", "category": "Shopping", "subcategory": "Online", "tags": "prime"},
    {"pattern": "COSTCO[amount>100]", "merchant": "Costco Bulk", "category": "Shopping", "subcategory": "Wholesale"},
    {"pattern": "COSTCO[amount<=100]", "merchant": "Costco", "category": "Food", "subcategory": "Grocery"},
    {"pattern": "GAS[amount:50-200]", "merchant": "Gas", "category": "Auto", "subcategory": "Fuel"},
    {"pattern": "UBER[date:2025-01-01..2025-01-31]", "merchant": "Uber Jan", "category": "Transport", "subcategory": "Jan"},
    {"pattern": "AMAZON[month=12]", "merchant": "Amazon Dec", "category": "Shopping", "subcategory": "Holiday"},
    {"pattern": "NETFLIX", "merchant": "NetflixTag", "category": "", "subcategory": "", "tags": "sub|Video"},
    {"pattern": "NETFLIX(", "merchant": "BadRegex", "category": "Bad", "subcategory": "Bad"},
    {"pattern": "[A-C]OSTCO", "merchant": "Costco Any", "category": "Shopping", "subcategory": "Club"},
    {"pattern": r"(AMAZON|AMZN)\s", "merchant": "Amazon Paren", "category": "Shopping", "subcategory": "Paren"},
    # categorising row that leaves the subcategory blank; later rows of the SAME category that set one must not fill it in
    {"pattern": "COSTCO|AMAZON", "merchant": "NoSub", "category": "Shopping", "subcategory": ""},
]

# one more description whose last word looks like a location code (the statement entry point carries a location column)
TXNS = R.all_txns(descs=R.DESCS + ["SHELL OIL WA"], ctxs=R.CTX + [R.CTX_TWIN])


def bounds(tier):
    k = 3 if tier == "quick" else 4
    return {"max_rules_per_file": k, "rules_alphabet": len(RULES), "preambles": len(PREAMBLES), "csv_rows_alphabet": len(CSVROWS),
            "transactions": len(TXNS)}


def gen_cases(tier):
    k = 3 if tier == "quick" else 4
    for n in range(1, k + 1):
        for seq in itertools.permutations(range(len(RULES)), n):
            for p in range(len(PREAMBLES)):
                # the statement-file entry point is run for files of <= 2 rules in the quick tier, for all files in the thorough tier
                yield {"fmt": "rules", "preamble": p, "rules": list(seq), "stmt": bool(n <= 2 or tier == "thorough")}
    for n in range(1, k + 1):
        for seq in itertools.permutations(range(len(CSVROWS)), n):
            yield {"fmt": "csv", "rows": list(seq)}


# ---------------------------------------------------------------------------------------------- .rules side
def _file_text(p, seq, force_cat=None):
    rules = []
    for i in seq:
        r = dict(RULES[i])
        if force_cat and not r.get("category"):
            r["category"] = force_cat
        rules.append(r)
    return R.render_file(PREAMBLES[p], rules)


@functools.lru_cache(maxsize=20000)
def rules_results(p, seq, force_cat=None):
    """Results of the file (preamble p, rule sequence seq) for every transaction via both entry points."""
    from tally.merchant_engine import parse_merchants
    text = _file_text(p, seq, force_cat)
    H.reset_state()
    eng = parse_merchants(text)
    a = [R.engine_result(eng, t) for t in TXNS]
    path = R.write_scratch("m.rules", text)
    rules, transforms = R.load_path(path)
    b = [R.normalize_result(rules, transforms, t) for t in TXNS]
    H.reset_state()
    return a, b


def statement_results(p, seq):
    """The Amex rows of TXNS written as one statement file and read by parse_generic_csv with the file's rules (the `tally up` path).
    Returns {index into TXNS: result}."""
    import datetime as _dt
    from tally.parsers import parse_generic_csv
    from tally.format_parser import parse_format_string
    text = _file_text(p, seq)
    H.reset_state()
    path = R.write_scratch("m.rules", text)
    rules, transforms = R.load_path(path)
    idx = [i for i, t in enumerate(TXNS) if t["date"] and t["source"] == "Amex" and t["field"]]
    lines = ["Date,Description,Amount,Memo,Type,Location"]
    for i in idx:
        t = TXNS[i]
        # a location cell that varies from row to row (it is no part of what decides merchant, category or subcategory)
        loc = ["WA", "NY", ""][i % 3]
        lines.append(",".join([_dt.date.fromisoformat(t["date"]).strftime("%m/%d/%Y"), R.csv_quote(t["description"]), repr(t["amount"]),
                               R.csv_quote(t["field"].get("memo", "")), R.csv_quote(t["field"].get("type", "")), loc]))
    sp = R.write_scratch("stmt.csv", "\n".join(lines) + "\n")
    spec = parse_format_string("{date:%m/%d/%Y},{description},{amount},{memo},{type},{location}")
    txns = parse_generic_csv(sp, spec, rules, source_name="Amex", transforms=transforms)
    H.reset_state()
    if len(txns) != len(idx):
        return None
    return {i: {"merchant": x["merchant"], "category": x["category"], "subcategory": x["subcategory"], "tags": sorted(x.get("tags") or [])}
            for i, x in zip(idx, txns)}


@functools.lru_cache(maxsize=None)
def rule_truth(p, i):
    """truth of rule i for every transaction, from the one-rule file with the same preamble (category forced)."""
    a, b = rules_results(p, (i,), "ForcedCat")
    return [x["matched"] for x in a], [x["category"] != "Unknown" for x in b]


@functools.lru_cache(maxsize=None)
def direct_truth(i, stripped=False):
    """truth of a variable-free condition straight from the expression evaluator (no engine); with stripped=True on the
    description as the file's transforms must leave it (computed here with re.sub, not by tally)."""
    import re
    from tally.expr_parser import evaluate_transaction, ExpressionError
    out = []
    for t in TXNS:
        if stripped:
            t = dict(t, description=re.sub(r"^SQ \*", "", t["description"]))
        try:
            out.append(bool(evaluate_transaction(RULES[i]["match"], R.txn_dict(t))))
        except ExpressionError:
            out.append(False)
    return out


@functools.lru_cache(maxsize=None)
def reference_truth(i, stripped=False):
    """truth of a variable-free condition according to the reference interpreter (mc/ref/expr.py, independent of tally);
    None where the reference leaves the expression undefined (ill-typed / failing - then the rule is simply false, see C08)."""
    import re
    from mc.ref import expr as REF
    out = []
    for t in TXNS:
        tt = dict(t, date=R.to_date(t["date"]), field=dict(t["field"]) if t["field"] is not None else None)
        if stripped:
            tt["description"] = re.sub(r"^SQ \*", "", tt["description"])
        try:
            out.append(bool(REF.evaluate(RULES[i]["match"], tt, None, None)))
        except Exception:  # noqa
            out.append(None)
    return out


def _expect(seq, truths, ti):
    for pos, i in enumerate(seq):
        r = RULES[i]
        if r.get("category") and truths[pos][ti]:
            return pos, (r.get("merchant") or r["name"], r["category"], r.get("subcategory", ""), r["name"])
    return None, None


def check_rules_case(case):
    p, seq = case["preamble"], tuple(case["rules"])
    viol = []
    a, b = rules_results(p, seq)
    tr = [rule_truth(p, i) for i in seq]
    if len(seq) == 1 and p in (0, 2, 3) and seq[0] in PLAIN:
        # the engine must find a lone, variable-free rule true exactly when the evaluator finds its condition true
        # (normalize_merchant: on the description as the transforms leave it)
        dt_e = direct_truth(seq[0])
        dt_ = direct_truth(seq[0], p in STRIPS_SQ)
        rt_e = reference_truth(seq[0])
        rt_ = reference_truth(seq[0], p in STRIPS_SQ)
        for ti, t in enumerate(TXNS):
            if tr[0][0][ti] != dt_e[ti] or tr[0][1][ti] != dt_[ti]:
                viol.append({"kind": "engine-disagrees-with-evaluator", "detail": {"rule": RULES[seq[0]]["match"], "txn": t, "evaluator": dt_[ti],
                                                                                   "engine_match": tr[0][0][ti], "normalize": tr[0][1][ti]}})
            elif (rt_e[ti] is not None and tr[0][0][ti] != rt_e[ti]) or (rt_[ti] is not None and tr[0][1][ti] != rt_[ti]):
                viol.append({"kind": "condition-truth-differs-from-reference", "detail": {"rule": RULES[seq[0]]["match"], "txn": t, "reference": (rt_e[ti], rt_[ti]),
                                                                                          "engine_match": tr[0][0][ti], "normalize": tr[0][1][ti]}})
    base_a, base_b = rules_results(p, ())
    outcomes = set()
    nontrivial = False
    evals = 0
    # merchant fallback must be a function of the description alone
    by_desc = {}
    for ti, t in enumerate(TXNS):
        for ep, res, truths, base in (("engine", a, [x[0] for x in tr], base_a), ("normalize", b, [x[1] for x in tr], base_b)):
            evals += 1
            got = res[ti]
            pos, exp = _expect(seq, truths, ti)
            ntrue = sum(1 for x in truths if x[ti])
            if ntrue >= 2 or (pos is not None and any(truths[q][ti] and not RULES[seq[q]].get("category") for q in range(pos))):
                nontrivial = True
            sub = {"entry": ep, "txn": t}
            if exp is None:
                if ep == "engine":
                    if got["matched"] or got["category"] or got["merchant"]:
                        viol.append({"kind": "categorised-without-true-categorising-rule", "detail": {**sub, "got": got}})
                else:
                    if (got["category"], got["subcategory"]) != ("Unknown", "Unknown"):
                        viol.append({"kind": "categorised-without-true-categorising-rule", "detail": {**sub, "got": got}})
                    if got["merchant"] != base[ti]["merchant"]:
                        viol.append({"kind": "unknown-merchant-depends-on-rules", "detail": {**sub, "got": got["merchant"], "with_no_rules": base[ti]["merchant"]}})
                    by_desc.setdefault(t["description"], set()).add(got["merchant"])
                outcomes.add("unknown")
            else:
                g = (got["merchant"], got["category"], got["subcategory"])
                if g != exp[:3]:
                    viol.append({"kind": "wrong-winner", "detail": {**sub, "expected": exp, "got": got,
                                                                      "truth_per_rule": [x[ti] for x in truths]}})
                elif ep == "engine" and got["rule"] != exp[3]:
                    viol.append({"kind": "wrong-winner", "detail": {**sub, "expected": exp, "got": got}})
                outcomes.add(exp[3])
        # deletion oracle: removing every rule that is false for this transaction changes nothing observable
    groups = {}
    for ti in range(len(TXNS)):
        for ep_i, ep in enumerate(("engine", "normalize")):
            key = (ep_i, tuple(x[ep_i][ti] for x in tr))
            groups.setdefault(key, []).append(ti)
    for (ep_i, tv), tis in groups.items():
        if all(tv):
            continue
        sub_seq = tuple(i for i, keep in zip(seq, tv) if keep)
        red = rules_results(p, sub_seq)[ep_i]
        full = (a, b)[ep_i]
        for ti in tis:
            evals += 1
            if red[ti] != full[ti]:
                viol.append({"kind": "false-rule-influences-result", "detail": {"entry": ("engine", "normalize")[ep_i], "txn": TXNS[ti],
                                                                                 "with_false_rules": full[ti], "without": red[ti],
                                                                                 "false_rules": [RULES[i]["name"] for i, keep in zip(seq, tv) if not keep]}})
    # third entry point: the same transactions as rows of one statement file (what `tally up` does) - every row must get what
    # normalize_merchant gives that transaction on its own
    if case.get("stmt", True):
        # the same unmodified file loaded in most_specific mode first, then (no reset in between) in the default mode
        from tally.merchant_utils import get_all_rules, get_transforms
        H.reset_state()
        path = R.write_scratch("m.rules", _file_text(p, seq))
        R.load_path(path, "most_specific")
        transforms2 = get_transforms(path)
        rules2 = get_all_rules(path)
        for ti, t in enumerate(TXNS):
            evals += 1
            got = R.normalize_result(rules2, transforms2, t)
            if (got["merchant"], got["category"], got["subcategory"]) != (b[ti]["merchant"], b[ti]["category"], b[ti]["subcategory"]):
                viol.append({"kind": "default-mode-load-after-most-specific-load-differs", "detail": {"txn": t, "got": got, "fresh_default_mode_load": b[ti]}})
                break
        H.reset_state()
    try:
        st = statement_results(p, seq) if case.get("stmt", True) else None
    except Exception as e:  # noqa
        st = None
        viol.append({"kind": "statement-parse-raises", "detail": {"exc": f"{type(e).__name__}: {e}"}})
    if st is not None:
        for ti, got in st.items():
            evals += 1
            want = {k: b[ti][k] for k in ("merchant", "category", "subcategory")}
            want["tags"] = sorted(b[ti]["tags"])
            if got != want:
                viol.append({"kind": "statement-row-classified-differently", "detail": {"txn": TXNS[ti], "as_row_of_a_statement": got, "on_its_own": want}})
    for d, names in by_desc.items():
        if len(names) > 1:
            viol.append({"kind": "unknown-merchant-not-function-of-description", "detail": {"description": d, "names": sorted(names)}})
    return {"evals": evals, "nontrivial": 1 if nontrivial else 0, "outcomes": sorted(outcomes), "violations": viol[:40],
            "sample_repr": {"file": _file_text(p, seq), "transactions": len(TXNS)}}


# ---------------------------------------------------------------------------------------------- legacy CSV side
@functools.lru_cache(maxsize=20000)
def csv_results(seq):
    from tally.merchant_engine import load_csv_as_engine
    text = R.render_csv([CSVROWS[i] for i in seq], comments=len(seq) % 2 == 0)
    # every other file carries a UTF-8 byte-order mark (spreadsheet export): same rules
    path = R.write_scratch("merchant_categories.csv", ("\ufeff" + text) if sum(seq) % 2 == 1 else text)
    rules, transforms = R.load_path(path)
    b = [R.normalize_result(rules, transforms, t) for t in TXNS]
    H.reset_state()
    try:
        eng = load_csv_as_engine(path)
        a = [R.engine_result(eng, t) for t in TXNS]
    except Exception as e:  # noqa
        a = f"{type(e).__name__}: {e}"
    H.reset_state()
    return a, b


@functools.lru_cache(maxsize=None)
def csv_truth(i):
    return [R.csv_row_truth(CSVROWS[i]["pattern"], t) for t in TXNS]


def check_csv_case(case):
    seq = tuple(case["rows"])
    viol = []
    a, b = csv_results(seq)
    base = csv_results(())[1]
    truths = [csv_truth(i) for i in seq]
    outcomes = set()
    nontrivial = False
    evals = 0
    if isinstance(a, str):
        viol.append({"kind": "csv-engine-load-failed", "detail": a})
        a = None
    for ti, t in enumerate(TXNS):
        exp = None
        for pos, i in enumerate(seq):
            if CSVROWS[i].get("category") and truths[pos][ti]:
                r = CSVROWS[i]
                exp = (r["merchant"], r["category"], r["subcategory"])
                break
        if sum(1 for x in truths if x[ti]) >= 2:
            nontrivial = True
        for ep, res in (("normalize", b), ("csv-engine", a)):
            if res is None:
                continue
            evals += 1
            got = res[ti]
            sub = {"entry": ep, "txn": t}
            if exp is None:
                outcomes.add("unknown")
                if ep == "normalize":
                    if (got["category"], got["subcategory"]) != ("Unknown", "Unknown"):
                        viol.append({"kind": "categorised-without-true-categorising-rule", "detail": {**sub, "got": got}})
                    elif got["merchant"] != base[ti]["merchant"]:
                        viol.append({"kind": "unknown-merchant-depends-on-rules", "detail": {**sub, "got": got["merchant"], "with_no_rules": base[ti]["merchant"]}})
                elif got["matched"]:
                    viol.append({"kind": "categorised-without-true-categorising-rule", "detail": {**sub, "got": got}})
            else:
                outcomes.add(exp[0])
                if (got["merchant"], got["category"], got["subcategory"]) != exp:
                    viol.append({"kind": "wrong-winner", "detail": {**sub, "expected": exp, "got": got,
                                                                      "truth_per_row": [x[ti] for x in truths]}})
    # deletion oracle on the normalize path
    groups = {}
    for ti in range(len(TXNS)):
        groups.setdefault(tuple(bool(x[ti]) for x in truths), []).append(ti)
    for tv, tis in groups.items():
        if all(tv):
            continue
        red = csv_results(tuple(i for i, keep in zip(seq, tv) if keep))[1]
        for ti in tis:
            evals += 1
            if red[ti] != b[ti]:
                viol.append({"kind": "false-rule-influences-result", "detail": {"entry": "normalize", "txn": TXNS[ti], "with_false_rules": b[ti], "without": red[ti]}})
    return {"evals": evals, "nontrivial": 1 if nontrivial else 0, "outcomes": sorted(outcomes), "violations": viol[:40],
            "sample_repr": {"csv": R.render_csv([CSVROWS[i] for i in seq]), "transactions": len(TXNS)}}


def check_case(case):
    if case["fmt"] == "rules":
        return check_rules_case(case)
    return check_csv_case(case)
