"""C05 - every well-formed statement row becomes exactly one transaction, faithfully.

Exhaustive: every table of <= K rows over a 30-kind row alphabet x 7 column layouts x 4 delimiter kinds x
header yes/no x 2 decimal conventions x 4 sign modes.  Tables are CELL tables; a serialiser renders them to
file text and the expected transactions are computed from the cells (never by parsing the text).  The real
resolve_source_format + parse_generic_csv read the file.  Transition oracle: parse(table) equals the
concatenation of parse([row]) for its rows (a malformed row never changes how another row is read).
"""
import datetime as dt
import functools
import itertools

from mc.core import harness as H
from mc.checks import rules_common as R
from mc.ref import table as T

PROPERTY = "C05"
LEVEL = "exploration"
RULE = ("cases = every table of 1..K rows (K=2 quick, 3 thorough) over 41 row kinds (good; surrounding blanks; embedded comma/semicolon/tab; "
        "embedded newline; doubled quote; Unicode; Unicode line-separator characters inside a cell; short by one and by two cells; long; blank line; all-empty cells; bad date (out-of-range, 2-digit year, 3-digit month, underscore, sign, unpadded, other format); empty description; "
        "amount cells abc, empty, 0, 0.00, -0, nan, inf, -Infinity, (12.50), $1,234.50, 1.234,50, EUR 7, 1.234, 12,500, -45.10), each run under "
        "7 layouts (skip column, location, extra field mid/last, description template with capture last, '%d %b %y' dates) x 6 delimiters (comma, ';', "
        "tab, regex, regex with an optional last group, regex with named groups) x header/no header x decimal '.'/',' x sign {amount}/{-amount}/{+amount}/negate_amount override. non-trivial = table with "
        ">=1 row that must be skipped and >=1 that must be kept under some configuration; tables distinct by construction")
ASSUMPTIONS = ["expected transactions are derived from the cell table by an independent Decimal-based reader following the property statement",
               "not judged: location when no location column is mapped or the cell is empty; ambiguous numerals (1e3, 1_0, +5); trailing text after a date under a format without blanks (the repository cuts such a cell at its first blank; the reference does the same); "
               "rows a delimiter kind cannot represent (newline or '|' under regex:, long rows under regex:)",
               "UTF-8 files, with or without a byte-order mark"]

D1, D2, D3 = dt.date(2025, 1, 15), dt.date(2025, 1, 16), dt.date(2025, 2, 3)


def K(name, date=D1, desc="COFFEE SHOP", amt="12.50", shape="normal", pad=False, typ="POS"):
    return {"name": name, "date": date, "desc": desc, "amt": amt, "shape": shape, "pad": pad, "type": typ}


KINDS = [
    K("good"), K("blanks", D2, "TEA HOUSE", "7.25", pad=True), K("delims", D3, "ACME, INC; LTD\tX", "30.00"),
    K("newline", D2, "LINE1\nLINE2", "5.00"), K("dquote", D2, 'SAY "HI"', "6.00"), K("unicode", D3, "Zoë's CAFÉ 日本", "8.00"), K("unisep", D2, "LINE\u2028SEP\x0bVT\x85NEL\x1cFS", "4.00"),
    K("short1", shape="short1"), K("short2", shape="short2"), K("long", shape="long"), K("blankline", shape="blank"),
    K("allempty", shape="empty"), K("baddate", "13/45/2025"), K("emptydesc", D2, "   ", "9.00"),
    # date cells that only a strict reading of the format rejects / accepts (strptime is the definition of "matches the format")
    K("d-yy", "01/16/25", "YY SHOP", "3.00"), K("d-pad3", "001/17/2025", "PAD SHOP", "3.10"), K("d-under", "1_1/18/2025", "UND SHOP", "3.20"),
    K("d-plus", "01/+2/2025", "PLUS SHOP", "3.30"), K("d-nopad", "1/5/2025", "NOPAD SHOP", "3.40"), K("d-iso", "2025-01-20", "ISO SHOP", "3.50"),
    # a valid '%d %b %y' date followed by more text: it does not match that format (nor, cut at its first blank, any other layout's)
    K("d-trail", "15 Jan 25 Wed", "TRAIL SHOP", "3.60"),
    K("a-abc", amt="abc"), K("a-empty", amt=""), K("a-0", amt="0"), K("a-0.00", amt="0.00"), K("a-neg0", amt="-0"),
    K("a-nan", amt="nan"), K("a-inf", amt="inf"), K("a-neginf", amt="-Infinity"), K("a-paren", amt="(12.50)"),
    K("a-lparen", amt="(12.50"), K("a-rparen", amt="12.50)"), K("a-usd", amt="$1,234.50"), K("a-eu", amt="1.234,50"), K("a-eur7", amt="€ 7"), K("a-1.234", amt="1.234"),
    K("a-12,500", amt="12,500"), K("a-neg", D3, "REFUND", "-45.10"), K("good2", D3, "BOOK STORE", "100"),
    # cells holding text that looks like a template placeholder (a description template is filled once, from the cells)
    K("brace-type", D2, "PLAIN STORE", "2.00", typ="{merchant}"), K("brace-desc", D2, "{type} {amount}", "2.50", typ="{date}"),
]

LAYOUTS = [
    {"name": "L0", "cols": ["date", "description", "amount"], "datefmt": "%m/%d/%Y"},
    {"name": "L1", "cols": ["_", "date", "amount", "description"], "datefmt": "%d %b %y"},
    {"name": "L2", "cols": ["date", "description", "amount", "location"], "datefmt": "%Y-%m-%d"},
    {"name": "L3", "cols": ["date", "description", "card", "amount"], "datefmt": "%m/%d/%Y"},
    {"name": "L4", "cols": ["date", "type", "merchant", "amount"], "datefmt": "%m/%d/%Y", "template": "{merchant} ({type})"},
    {"name": "L5", "cols": ["date", "description", "amount", "card"], "datefmt": "%m/%d/%Y"},
    {"name": "L6", "cols": ["date", "amount", "type", "merchant"], "datefmt": "%m/%d/%Y", "template": "{merchant} ({type})"},
]
DELIMS = ["comma", "semicolon", "tab", "regex", "regex-opt", "regex-named"]
SIGNS = ["keep", "negate", "abs", "override", "abs+override"]      # the last one: {+amount} together with negate_amount: true
DECIMALS = [".", ","]


def layout_ref(L):
    cols = L["cols"]
    ref = {"date": cols.index("date"), "amount": cols.index("amount"), "datefmt": L["datefmt"],
           "description": cols.index("description") if "description" in cols else None,
           "location": cols.index("location") if "location" in cols else None, "captures": None, "extra": None, "template": L.get("template")}
    custom = {c: i for i, c in enumerate(cols) if c not in ("date", "amount", "description", "location", "_")}
    if ref["description"] is None:
        ref["captures"] = custom
    elif custom:
        ref["extra"] = custom
    return ref


def format_string(L, sign):
    toks = []
    for c in L["cols"]:
        if c == "date":
            toks.append("{date:" + L["datefmt"] + "}")
        elif c == "amount":
            toks.append({"keep": "{amount}", "override": "{amount}", "negate": "{-amount}", "abs": "{+amount}", "abs+override": "{+amount}"}[sign])
        else:
            toks.append("{" + c + "}")
    return ", ".join(toks)


def cells_for(kind, L):
    if kind["shape"] == "blank":
        return None
    cols = L["cols"]
    if kind["shape"] == "empty":
        return [""] * len(cols)
    vals = {"_": "x", "location": "Seattle", "card": "VISA 1234", "type": kind.get("type", "POS"), "merchant": kind["desc"], "description": kind["desc"],
            "amount": kind["amt"], "date": kind["date"].strftime(L["datefmt"]) if isinstance(kind["date"], dt.date) else kind["date"]}
    cells = [vals[c] for c in cols]
    if kind["pad"]:
        cells = ["  " + c + " " for c in cells]
    if kind["shape"] == "short1":
        cells = cells[:-1]
    elif kind["shape"] == "short2":
        cells = cells[:-2]
    elif kind["shape"] == "long":
        cells = cells + ["EXTRA"]
    return cells


def bounds(tier):
    return {"max_rows": 2 if tier == "quick" else 3, "row_kinds": len(KINDS), "layouts": len(LAYOUTS), "delimiters": DELIMS,
            "header": [True, False], "decimal": DECIMALS, "sign_modes": SIGNS}


def gen_cases(tier):
    k = 2 if tier == "quick" else 3
    for n in range(1, k + 1):
        for seq in itertools.product(range(len(KINDS)), repeat=n):
            yield list(seq)


def observe(txns):
    out = []
    for t in txns:
        out.append({"date": t["date"], "raw_description": t.get("raw_description"),
                    "amount": t["amount"] if t["amount"] == t["amount"] and abs(t["amount"]) != float("inf") else repr(t["amount"]), "source": t.get("source"),
                    "is_credit": t.get("is_credit"), "field": t.get("field") or None, "location": t.get("location")})
    return out


def parse_real(rows_cells, L, delim, header, decimal, sign, bom=False):
    from tally.config_loader import resolve_source_format
    from tally.parsers import parse_generic_csv
    hdr = [c.upper() for c in L["cols"]] if header else None
    text = T.render_file(hdr, rows_cells, delim)
    path = R.write_scratch("stmt.csv", ("\ufeff" + text) if bom else text)
    src = {"name": "SrcA", "file": "stmt.csv", "format": format_string(L, sign), "has_header": header, "decimal_separator": decimal}
    if L.get("template"):
        src["columns"] = {"description": L["template"]}
    if delim == "semicolon":
        src["delimiter"] = ";"
    elif delim == "tab":
        src["delimiter"] = "tab"
    elif delim == "regex":
        src["delimiter"] = T.regex_delimiter(len(L["cols"]))
    elif delim == "regex-opt":
        src["delimiter"] = T.regex_delimiter_opt(len(L["cols"]))
    elif delim == "regex-named":
        src["delimiter"] = T.regex_delimiter_named(len(L["cols"]))
    if sign in ("override", "abs+override"):
        src["negate_amount"] = True
    resolved = resolve_source_format(src)
    spec = resolved["_format_spec"]
    txns = parse_generic_csv(path, spec, [], source_name=resolved.get("name", "CSV"),
                             decimal_separator=resolved.get("decimal_separator", "."))
    return observe(txns), text


@functools.lru_cache(maxsize=None)
def single(ki, li, delim, header, decimal, sign):
    cells = cells_for(KINDS[ki], LAYOUTS[li])
    try:
        return parse_real([cells], LAYOUTS[li], delim, header, decimal, sign)[0]
    except Exception as e:  # noqa
        return f"EXC {type(e).__name__}: {e}"


def same_txn(got, exp):
    if exp is None or got is None:
        return False
    for k in ("date", "raw_description", "amount", "source", "is_credit", "field"):
        if got.get(k) != exp.get(k):
            return False
    if "location" in exp and got.get("location") != exp["location"]:
        return False
    return True


def check_case(case):
    viol, evals = [], 0
    kept_any = skipped_any = False
    outcomes = set()
    for li, L in enumerate(LAYOUTS):
        ref = layout_ref(L)
        rows = [cells_for(KINDS[k], L) for k in case]
        for delim in DELIMS:
            if delim.startswith("regex") and any((r is not None and (not T.representable(r, "regex") or len(r) > len(L["cols"]))) for r in rows):
                continue
            rows_exp = rows
            if delim == "regex-opt":
                # the optional last group is absent on a line that is one cell short: that cell reads as empty
                rows_exp = [(r + [""]) if (r is not None and len(r) == len(L["cols"]) - 1) else r for r in rows]
            for header in (True, False):
                for decimal in DECIMALS:
                    for sign in SIGNS:
                        cfg = {"layout": L["name"], "delimiter": delim, "header": header, "decimal": decimal, "sign": sign}
                        evals += 1
                        try:
                            got, text = parse_real(rows, L, delim, header, decimal, sign)
                        except Exception as e:  # noqa
                            viol.append({"kind": "parser-raises", "detail": {"config": cfg, "exc": f"{type(e).__name__}: {e}"}})
                            continue
                        # {+amount} makes the amount absolute whatever else is set
                        refsign = {"override": "negate", "abs+override": "abs"}.get(sign, sign)
                        exp = [T.expected_txn(r, ref, decimal, refsign, "SrcA") for r in rows_exp]
                        exp = [e for e in exp if e is not None]
                        if exp:
                            kept_any = True
                        if len(exp) < len(rows):
                            skipped_any = True
                        outcomes.add(f"{len(exp)}of{len(rows)}")
                        ok = len(got) == len(exp) and all(same_txn(g, e) for g, e in zip(got, exp))
                        if not ok:
                            viol.append({"kind": "transactions-differ-from-cells", "detail": {"config": cfg, "file_text": text, "expected": exp, "got": got}})
                        if len(case) <= 2 and sign == "keep" and decimal == ".":
                            # the same bytes behind a UTF-8 byte-order mark (what spreadsheet exports write) read the same
                            evals += 1
                            try:
                                got_bom, _ = parse_real(rows, L, delim, header, decimal, sign, bom=True)
                            except Exception as e:  # noqa
                                got_bom = f"EXC {type(e).__name__}: {e}"
                            if got_bom != got:
                                viol.append({"kind": "byte-order-mark-changes-result", "detail": {"config": cfg, "file_text": text, "without_bom": got, "with_bom": got_bom}})
                        if len(case) > 1:
                            parts = []
                            bad = False
                            for k in case:
                                s = single(k, li, delim, header, decimal, sign)
                                if isinstance(s, str):
                                    bad = True
                                    break
                                parts.extend(s)
                            if not bad and parts != got:
                                viol.append({"kind": "row-not-independent", "detail": {"config": cfg, "file_text": text, "whole_table": got, "rows_alone": parts}})
                        if len(viol) >= 12:
                            break
                    if len(viol) >= 12:
                        break
                if len(viol) >= 12:
                    break
            if len(viol) >= 12:
                break
        if len(viol) >= 12:
            break
    return {"evals": evals, "nontrivial": 1 if (kept_any and skipped_any) else 0, "outcomes": sorted(outcomes), "violations": viol,
            "sample_repr": {"rows": [KINDS[k]["name"] for k in case],
                            "example_text": T.render_file(["DATE", "DESCRIPTION", "AMOUNT"], [cells_for(KINDS[k], LAYOUTS[0]) for k in case], "comma")}}
