"""C18 - a format string maps columns by position, and inspect's suggestion round-trips.

Part 1 (parser): every sequence of <= K column tokens over {date, description, amount, -amount, +amount,
location, a, b, _, *} x 4 date formats x 4 templates (all invalid arrangements included) x 4 spellings;
parse_format_string must return exactly the reference positions / date format / sign mode, or reject.
Part 2 (inspect): every header row of <= K cells over 18 header texts (plus the 5-column family: 3 mapped columns and every ordered pair of further headers in 3 arrangements) with two data rows; when the real
cmd_inspect prints a suggestion, the parser must accept it and select the date / description / amount
columns inspect itself reported.
"""
import contextlib
import io
import itertools
import os
import re
import types

from mc.core import harness as H
from mc.checks import rules_common as R
from mc.ref import fmt as ref

PROPERTY = "C18"
LEVEL = "exploration"
RULE = ("cases = (1) every sequence of 1..K tokens (K=4 quick, 5 thorough) over 11 column tokens (incl. a capture named _ref) x {no date format, %Y-%m-%d, '%d %b %y'} x "
        "{no template, {a}, {a} {b}, {c}} x 4 spellings (plain, blanks around commas, upper-case names, {_}<->{*}); (2) every header row of "
        "1..K cells (K=4 quick, 5 thorough - the 5-cell rows over the first 12 header texts) over 18 header texts (plus the 5-column family: 3 mapped columns and every ordered pair of further headers in 3 arrangements) x 5 date styles in the data rows (all 5 for rows narrower than K, the default style for K-cell rows) fed to the real `tally inspect`. non-trivial = arrangement that the reference "
        "accepts, or rejects for a reason other than a missing required field; header rows for which inspect prints a suggestion; all distinct by construction")
ASSUMPTIONS = ["arrangements with a {description} column AND a template whose columns are all captured are not judged (the property does not say)",
               "date formats containing a comma are outside the alphabet", "inspect is run in-process with stdout captured"]

TOKENS = ["date", "description", "amount", "-amount", "+amount", "location", "a", "b", "_", "*", "_ref"]
DATEFMTS = [None, "%Y-%m-%d", "%d %b %y", "%Y-%m-%dT%H:%M:%S%z"]
TEMPLATES = [None, "{a}", "{a} {b}", "{c}"]
HEADERS = ["Date", "Transaction Date", "Posting Date", "Payment Date", "Description", "Merchant Name", "Payee", "Memo", "Amount", "Debit",
           "Payment", "Location", "City", "Balance", "",
           # unmapped columns whose header texts differ only in punctuation / letter case
           "Ref #", "Ref", "REF"]


def bounds(tier):
    k = 4 if tier == "quick" else 5
    return {"max_columns": k, "tokens": len(TOKENS), "date_formats": len(DATEFMTS), "templates": len(TEMPLATES), "header_texts": len(HEADERS)}


def gen_cases(tier):
    k = 4 if tier == "quick" else 5
    for n in range(1, k + 1):
        for seq in itertools.product(range(len(TOKENS)), repeat=n):
            yield {"part": "parser", "tokens": list(seq)}
    for n in range(1, k + 1):
        # rows of 5 cells (thorough) are enumerated over the first 12 header texts; shorter rows over all of them
        hs = range(len(HEADERS)) if n < 5 else range(12)
        for seq in itertools.product(hs, repeat=n):
            # every date style for rows of < K cells, the default style for the widest rows
            for ds in (range(len(DATESTYLES)) if n < k else (0,)):
                yield {"part": "inspect", "headers": list(seq), "datestyle": ds}
    # wider files: the three mapped columns plus every ordered pair of further headers, in three arrangements
    core = [HEADERS.index("Date"), HEADERS.index("Description"), HEADERS.index("Amount")]
    for a, b in itertools.product(range(len(HEADERS)), repeat=2):
        for arr in ([*core, a, b], [a, *core, b], [core[0], a, core[1], b, core[2]]):
            yield {"part": "inspect", "headers": arr, "datestyle": 0}


def render(tokens, datefmt, spelling):
    cells = []
    for t in tokens:
        name = t
        if spelling == 3 and t in ("_", "*"):
            name = "*" if t == "_" else "_"
        if spelling == 2:
            name = name.upper()
        if t == "date" and datefmt:
            cells.append("{" + name + ":" + datefmt + "}")
        else:
            cells.append("{" + name + "}")
    return (" , ".join(cells)).join(["  ", " "]) if spelling == 1 else ",".join(cells)


def check_parser(case):
    from tally.format_parser import parse_format_string
    toks = [TOKENS[i] for i in case["tokens"]]
    viol, evals, nontrivial = [], 0, 0
    outcomes = set()
    for df in DATEFMTS:
        if df and "date" not in toks:
            continue
        for tpl in TEMPLATES:
            verdict, exp = ref.expected(toks, df, tpl)
            outcomes.add(verdict if verdict != "reject" else "reject:" + exp)
            if verdict == "ambiguous":
                continue
            if verdict == "ok" or "missing" not in str(exp):
                nontrivial = 1
            for sp in range(4):
                if sp == 3 and not any(t in ("_", "*") for t in toks):
                    continue
                s = render(toks, df, sp)
                tplv = tpl.upper() if (tpl and sp == 2 and False) else tpl
                evals += 1
                sub = {"format": s, "template": tplv}
                try:
                    spec = parse_format_string(s, tplv)
                    err = None
                except ValueError as e:
                    spec, err = None, str(e)
                except Exception as e:  # noqa
                    viol.append({"kind": "parser-crashes", "detail": {**sub, "exc": f"{type(e).__name__}: {e}"}})
                    continue
                if verdict == "reject":
                    if spec is not None:
                        viol.append({"kind": "invalid-format-accepted", "detail": {**sub, "reason_it_is_invalid": exp}})
                    continue
                if spec is None:
                    viol.append({"kind": "valid-format-rejected", "detail": {**sub, "error": err}})
                    continue
                got = {"date_column": spec.date_column, "amount_column": spec.amount_column, "description_column": spec.description_column,
                       "location_column": spec.location_column, "date_format": spec.date_format, "negate_amount": bool(spec.negate_amount),
                       "abs_amount": bool(spec.abs_amount),
                       "captures": dict((spec.custom_captures or {}) if spec.description_column is None else (spec.extra_fields or {}))}
                if got == exp and sp == 0:
                    # the same string parsed again in the same process must map the same columns
                    evals += 1
                    try:
                        spec2 = parse_format_string(s, tplv)
                        got2 = {"date_column": spec2.date_column, "amount_column": spec2.amount_column, "description_column": spec2.description_column,
                                "location_column": spec2.location_column, "date_format": spec2.date_format, "negate_amount": bool(spec2.negate_amount),
                                "abs_amount": bool(spec2.abs_amount),
                                "captures": dict((spec2.custom_captures or {}) if spec2.description_column is None else (spec2.extra_fields or {}))}
                    except Exception as e:  # noqa
                        got2 = f"{type(e).__name__}: {e}"
                    if got2 != exp:
                        viol.append({"kind": "wrong-column-mapping", "detail": {**sub, "expected": exp, "got_on_second_parse": got2}})
                if got == exp and sp == 0 and tplv is None:
                    # the same string as the `format:` of a data source in settings.yaml (with a regex delimiter written with plain and
                    # with named groups): accepted there too, same columns
                    from tally.config_loader import resolve_source_format
                    n = len(toks)
                    for dl in ("regex:^" + r" \| ".join(["(.*?)"] * n) + "$", "regex:^" + r" \| ".join(["(?P<c%d>.*?)" % i for i in range(n)]) + "$"):
                        evals += 1
                        try:
                            rs = resolve_source_format({"name": "S", "file": "s.csv", "format": s, "delimiter": dl})
                            sp2 = rs["_format_spec"]
                            got3 = (sp2.date_column, sp2.amount_column, sp2.description_column, sp2.location_column)
                        except Exception as e:  # noqa
                            got3 = f"{type(e).__name__}: {e}"
                        if got3 != (exp["date_column"], exp["amount_column"], exp["description_column"], exp["location_column"]):
                            viol.append({"kind": "wrong-column-mapping", "detail": {**sub, "as_source_format_with_delimiter": dl, "expected": exp, "got": got3}})
                if got != exp:
                    viol.append({"kind": "wrong-column-mapping", "detail": {**sub, "expected": exp, "got": got}})
                elif spec.description_column is None and spec.description_template != tplv:
                    viol.append({"kind": "wrong-column-mapping", "detail": {**sub, "expected_template": tplv, "got": spec.description_template}})
    # duplicates spelled with different letter case must still be rejected: every upper/lower mask over the tokens
    names = [t.lstrip("+-") for t in toks if t not in ("_", "*")]
    if len(set(names)) < len(names):
        from tally.format_parser import parse_format_string as pfs
        for mask in itertools.product((0, 1), repeat=len(toks)):
            if not any(mask):
                continue
            cells = []
            for t, up in zip(toks, mask):
                sign = t[0] if t[0] in "+-" else ""
                nm = t.lstrip("+-")
                cells.append("{" + sign + (nm.upper() if up else nm) + "}")
            fs = ",".join(cells)
            for tpl in (None, "{a}"):
                verdict, exp = ref.expected(toks, None, tpl)
                if verdict != "reject":
                    continue
                evals += 1
                try:
                    pfs(fs, tpl)
                    viol.append({"kind": "invalid-format-accepted", "detail": {"format": fs, "template": tpl, "reason_it_is_invalid": exp}})
                except ValueError:
                    pass
    return {"evals": evals, "nontrivial": nontrivial, "outcomes": sorted(outcomes)[:5], "violations": viol[:20],
            "sample_repr": {"format": render(toks, None, 0)}}


DATESTYLES = [("01/15/2025", "02/20/2025", "03/01/2025", "03/09/2025"), ("2025-01-15", "2025-02-20", "2025-03-01", "2025-03-09"),
              ("15.01.2025", "20.02.2025", "01.03.2025", "09.03.2025"),
              ('"Jan 15, 2025"', '"Feb 20, 2025"', '"Mar 01, 2025"', '"Mar 09, 2025"'), ("15 Jan 25", "20 Feb 25", "01 Mar 25", "09 Mar 25")]


def _value_for(header, row, ds=0):
    h = header.lower()
    if "date" in h:
        return DATESTYLES[ds][row]
    if any(k in h for k in ("amount", "debit", "payment", "balance")):
        return ["12.50", "-7.25", "3.00", "1250.75"][row]
    if any(k in h for k in ("location", "city")):
        return ["Seattle", "Portland", "Seattle", "Boise"][row]
    return ["COFFEE SHOP 123", "GROCERY MART", "BOOK STORE", "GAS STATION 9"][row]


def check_inspect(case):
    from tally.commands.inspect import cmd_inspect
    from tally.format_parser import parse_format_string
    hs = [HEADERS[i] for i in case["headers"]]
    text = ",".join(hs) + "\n" + "\n".join(",".join(_value_for(h, r, case.get("datestyle", 0)) for h in hs) for r in range(4)) + "\n"
    path = R.write_scratch("inspect.csv", text)
    buf = io.StringIO()
    errb = io.StringIO()
    args = types.SimpleNamespace(file=path, rows=5)
    code = 0
    try:
        with contextlib.redirect_stdout(buf), contextlib.redirect_stderr(errb):
            cmd_inspect(args)
    except SystemExit as e:
        code = e.code
    except Exception as e:  # noqa
        return {"evals": 1, "nontrivial": 0, "outcomes": ["inspect-crashed"], "violations": [
            {"kind": "inspect-crashes", "detail": {"headers": hs, "exc": f"{type(e).__name__}: {e}"}}], "sample_repr": {"headers": hs}}
    out = buf.getvalue()
    m = re.search(r'^\s*format: "(.*)"\s*$', out, re.M)
    rep = {}
    for key, lab in (("date", "Date column"), ("description", "Description column"), ("amount", "Amount column"), ("location", "Location column")):
        mm = re.search(r"- " + lab + r": (\d+)", out)
        rep[key] = int(mm.group(1)) if mm else None
    # a suggestion = a format line together with the detected column numbers (the help text shown when detection fails
    # also contains an example format line, but no column report)
    if not m or rep["date"] is None or rep["amount"] is None:
        return {"evals": 1, "nontrivial": 0, "outcomes": ["no-suggestion"], "violations": [], "sample_repr": {"headers": hs}}
    fmt_s = m.group(1)
    viol = []
    try:
        spec = parse_format_string(fmt_s)
    except Exception as e:  # noqa
        viol.append({"kind": "inspect-suggestion-rejected", "detail": {"headers": hs, "format": fmt_s, "exc": f"{type(e).__name__}: {e}"}})
        spec = None
    if spec is not None:
        got = {"date": spec.date_column, "description": spec.description_column, "amount": spec.amount_column, "location": spec.location_column}
        for k in ("date", "description", "amount"):
            if got[k] != rep[k]:
                viol.append({"kind": "inspect-suggestion-selects-other-columns", "detail": {"headers": hs, "format": fmt_s, "inspect_reported": rep, "parser": got}})
                break
    return {"evals": 1, "nontrivial": 1, "outcomes": ["suggestion:" + str(len(fmt_s.split(",")))], "violations": viol,
            "sample_repr": {"headers": hs, "datestyle": case.get("datestyle", 0), "suggested": fmt_s}}


def check_case(case):
    return check_parser(case) if case["part"] == "parser" else check_inspect(case)
