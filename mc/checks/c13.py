"""C13 - the report's in-browser classification equals the command-line classification.

Exhaustive product of amounts x tag lists; the whole spending_report.js of the working tree is loaded
under node (vm + Proxy stubs for the browser globals) and its categorizeAmount / isExcludedFromSpending /
calculateCashFlow are compared with classification.py on identical inputs (exact double equality).
"""
import itertools
import json
import os
import subprocess

from mc.core import harness as H
from mc.ref import money

PROPERTY = "C13"
LEVEL = "exploration"
RULE = ("cases = chunks of the full product {13 amounts (quick; ~110 in thorough: cent grid around 0, powers of ten and two, large magnitudes): +-1e12, +-100.5, +-0.25, -0.0, 0, 1, 0.1+0.2, 5e-324, -5e-324, 1e308} x "
        "{every subset of income/transfer/investment, every per-tag letter-case form (lower/UPPER/Title/mIxEd), every order, "
        "with an ordinary tag before/after/both/none; plus [], missing, [\"\"], padded and look-alike tags}; plus all 343 triples of 7 "
        "values for the cash-flow formula; plus every set of 1..3 (quick) / 1..4 (thorough) of 12 transactions rendered as a real HTML report whose scripts are executed under node "
        "(stand-in for Vue): the totals card the application computes against the command-line classification. non-trivial = inputs whose tag list holds >=1 special tag in non-lower-case form or >=2 "
        "special tags, or amount is zero/negative-zero (sign boundary); inputs are distinct by construction")
ASSUMPTIONS = ["the JavaScript classification functions are executed under node, not inside a browser; the application's setup() runs against a minimal stand-in for Vue (ref / computed / createApp), only its unfiltered totals card is read",
               "tags are strings (non-string tags are outside the property)",
               "python side additionally compared with the reference bucket rule for tag lists built from exact special tags (any letter case) and ordinary tags; look-alike spellings (padded, sub-typed, non-ASCII) are judged on agreement only"]

JS_DRIVER = os.path.join(H.VERIF_ROOT, "mc", "js", "c13_driver.js")
JS_SRC = os.path.join(H.SRC, "tally", "spending_report.js")

AMOUNTS = [-1e12, -100.5, -0.25, -0.0, 0.0, 0.25, 1.0, 100.5, 1e12, 0.1 + 0.2, 5e-324, -5e-324, 1e308]
SPECIAL = ["income", "transfer", "investment"]


def _forms(t):
    return [t, t.upper(), t.title(), "".join(c.upper() if i % 2 else c for i, c in enumerate(t))]


# hand-made look-alike tag lists (padded, sub-typed, non-ASCII ...): the property only asks that browser and command line AGREE on them;
# which of these spellings count as special is not fixed by it, so they are not compared with the statement's bucket rule
LOOKALIKES = set()


def tag_lists():
    out = []
    for k in range(0, 4):
        for subset in itertools.combinations(SPECIAL, k):
            for order in itertools.permutations(subset):
                for forms in itertools.product(*[_forms(t) for t in order]):
                    for place in ("none", "before", "after", "both"):
                        tl = list(forms)
                        if place in ("before", "both"):
                            tl = ["food"] + tl
                        if place in ("after", "both"):
                            tl = tl + ["Zeta"]
                        out.append(tl)
    n_product = len(out)
    out += [None, [""], [" income"], ["income "], ["incomes"], ["transfers"], ["reinvestment"], ["in come"],
            ["income", "income"], ["Income", "INCOME", "transfer"],
            ["income:salary"], ["transfer:out"], ["investment:ira"], ["Income:Salary", "food"], ["income.salary"], ["income-salary"], ["income_salary"],
            ["x:income"], ["income:"], [":income"], ["income/salary"], ["income salary"], ["#income"], ["transfer,income"],
            # non-ASCII look-alikes whose case mapping is special (both sides must lower-case them the same way)
            ["\u0130ncome"], ["\u0131nvestment"], ["tran\u017ffer"], ["INCOME\u0307"], ["\uff49ncome"], ["TRANSFER\u00a0"], ["\ufeffincome"], ["inco\u00adme"],
            # a tag holding a comma next to the two-tag list it could be confused with (both orders); names of Object.prototype members
            ["bonus", "income"], ["bonus,income"], ["extra,transfer"], ["extra", "transfer"], ["constructor"], ["toString"], ["__proto__"], ["hasOwnProperty", "income"],
            ["valueOf"], ["length"]]
    # de-duplicate, keep order
    seen, res = set(), []
    for i, t in enumerate(out):
        k = json.dumps(t)
        if k not in seen:
            seen.add(k)
            res.append(t)
            if i >= n_product and t not in (None, [""]):
                LOOKALIKES.add(k)
    return res


CASH_VALUES = [0.0, 0.25, 100.5, 1e12, 0.1, 0.1 + 0.2, 1e-9]
CHUNK = 64

# the application itself: generated reports whose two inline scripts are executed under node with a stand-in for Vue (mc/js/c13_app.js);
# (merchant, amount, tags): one merchant with purchases and refunds, the three special tags in both signs and in other letter case, two at once
JS_APP = os.path.join(H.VERIF_ROOT, "mc", "js", "c13_app.js")
APP_TXNS = [("Bookshop", 50.0, []), ("Bookshop", 30.25, []), ("Bookshop", -30.25, []), ("Bookshop", -80.0, ["gift"]), ("Cafe", 5.5, ["food"]),
            ("Pay", -3000.0, ["income"]), ("Pay", 40.0, ["Income"]), ("Sav", 500.0, ["transfer"]), ("Sav", -200.0, ["TRANSFER"]),
            ("Brk", 400.0, ["investment"]), ("Brk", -25.0, ["Investment"]), ("Mix", 10.0, ["transfer", "income"])]
APP_CHUNK = 8


def bounds(tier):
    return {"amounts": len(amounts_for(tier)), "tag_lists": len(tag_lists()), "cash_triples": len(CASH_VALUES) ** 3,
            "app_transactions": len(APP_TXNS), "app_max_set_size": 3 if tier == "quick" else 4}


def amounts_for(tier):
    if tier == "quick":
        return AMOUNTS
    extra = [k / 100 for k in range(-60, 61, 3)] + [10.0 ** k for k in range(-8, 16, 2)] + [-(10.0 ** k) for k in range(-8, 16, 2)] + \
            [0.1 * k for k in range(1, 12)] + [2.0 ** -k for k in range(1, 30, 4)] + [1e15 + 0.5, -1e15 - 0.5, 123456789.125, -0.005, 0.005, 1e-320]
    seen, out = set(), []
    for a in AMOUNTS + extra:
        if repr(a) not in seen:
            seen.add(repr(a))
            out.append(a)
    return out


def gen_cases(tier):
    tls = tag_lists()
    amts = amounts_for(tier)
    for i in range(0, len(tls), CHUNK):
        yield {"classify": [[a, t] for t in tls[i:i + CHUNK] for a in amts]}
    yield {"cash": [list(t) for t in itertools.product(CASH_VALUES, repeat=3)]}
    subsets = [list(c) for k in range(1, (3 if tier == "quick" else 4) + 1) for c in itertools.combinations(range(len(APP_TXNS)), k)]
    for i in range(0, len(subsets), APP_CHUNK):
        yield {"app": subsets[i:i + APP_CHUNK]}


def run_js(batch):
    p = subprocess.run(["node", JS_DRIVER, JS_SRC], input=json.dumps(batch), capture_output=True, text=True, timeout=900)
    if p.returncode != 0:
        raise H.HarnessError(f"node driver failed rc={p.returncode}: {p.stderr[-800:]}")
    return json.loads(p.stdout)


KEYMAP = {"income": "income", "investment": "investment", "transfer_in": "transferIn", "transfer_out": "transferOut",
          "spending": "spending", "credits": "credits"}


def check_app(case):
    """Reports generated from small transaction sets; the totals card the application computes when it is mounted (every transaction of
    every visible merchant, no filter) against the command-line classification of the same transactions."""
    import datetime as dt
    import shutil
    from tally import classification as C
    from tally.analyzer import analyze_transactions, write_summary_file_vue
    from mc.checks import rules_common as R
    outdir = os.path.join(R.scratch(), "c13app")
    shutil.rmtree(outdir, ignore_errors=True)
    os.makedirs(outdir)
    paths, wants, viol = [], [], []
    not_observed = 0
    for n, subset in enumerate(case["app"]):
        txns = [{"merchant": APP_TXNS[i][0], "category": "Cat " + APP_TXNS[i][0], "subcategory": "S", "amount": APP_TXNS[i][1],
                 "date": dt.datetime(2025, 1 + k % 3, 5 + k), "description": APP_TXNS[i][0], "raw_description": APP_TXNS[i][0].upper() + " %d" % k,
                 "source": "S", "tags": list(APP_TXNS[i][2])} for k, i in enumerate(subset)]
        want = {"income": 0.0, "spending": 0.0, "credits": 0.0, "investment": 0.0, "transfers": 0.0, "count": len(txns)}
        for t in txns:
            c = C.categorize_amount(t["amount"], t["tags"])
            for k in ("income", "spending", "credits", "investment"):
                want[k] += c[k]
            want["transfers"] += c["transfer_in"] - c["transfer_out"]
        H.reset_state()
        p = os.path.join(outdir, f"r{n}.html")
        try:
            write_summary_file_vue(analyze_transactions(txns), p, year=2025, sources=["S"], embedded_html=True)
        except Exception as e:  # noqa
            viol.append({"kind": "python-exception", "detail": f"report generation: {type(e).__name__}: {e}", "case": {"app": [subset]}})
            continue
        paths.append((subset, p))
        wants.append(want)
    if paths:
        pr = subprocess.run(["node", JS_APP] + [p for _, p in paths], capture_output=True, text=True, timeout=900)
        if pr.returncode != 0:
            raise H.HarnessError(f"node app driver failed rc={pr.returncode}: {pr.stderr[-800:]}")
        for (subset, _), want, line in zip(paths, wants, pr.stdout.strip().splitlines()):
            got = json.loads(line)
            sub = {"app": [subset]}
            if "error" in got:
                # the stand-in could not run the application, or the application no longer exposes this card under this name: that is a
                # limit of the harness (recorded as an outcome, visible in the evidence), not a disagreement between browser and command line
                not_observed += 1
                continue
            bad = {k: (got["app"].get(k), want[k]) for k in want if got["app"].get(k) is None or abs(got["app"][k] - want[k]) > 1e-9 * max(1.0, abs(want[k]))}
            if bad:
                viol.append({"kind": "bucket-mismatch", "detail": {"entry": "totals computed by the report application (no filter)",
                                                                    "transactions": [list(APP_TXNS[i]) for i in subset],
                                                                    "browser_vs_command_line": {k: {"browser": a, "command_line": b} for k, (a, b) in bad.items()}},
                             "case": sub})
    shutil.rmtree(outdir, ignore_errors=True)
    multi = sum(1 for s in case["app"] if len({APP_TXNS[i][0] for i in s}) < len(s))
    return {"evals": len(case["app"]), "nontrivial": 0 if not_observed else multi, "outcomes": ["app-totals-not-observable" if not_observed else "app-totals"], "violations": viol,
            "sample_repr": {"first_transaction_set": [list(APP_TXNS[i]) for i in case["app"][0]], "sets_in_chunk": len(case["app"])}}


def check_case(case):
    if "app" in case:
        return check_app(case)
    from tally import classification as C
    js = run_js(case)
    viol = []
    outcomes = set()
    nontrivial = 0
    evals = 0
    for (amount, tags), r in zip(case.get("classify", []), js["classify"]):
        evals += 1
        sub = {"classify": [[amount, tags]]}
        try:
            py = C.categorize_amount(amount, tags)
            pyex = C.is_excluded_from_spending(tags)
        except Exception as e:  # noqa
            viol.append({"kind": "python-exception", "detail": f"{type(e).__name__}: {e}", "case": sub})
            continue
        if not r.get("ok"):
            viol.append({"kind": "js-exception", "detail": r.get("err"), "case": sub})
            continue
        jsc = r["c"]
        pyb = [k for k, v in py.items() if v != 0]
        jsb = [k for k, v in jsc.items() if v != 0]
        mapped = {KEYMAP[k]: float(v) for k, v in py.items()}
        if set(jsc) != set(mapped) or any(float(jsc[k]) != mapped[k] for k in mapped):
            viol.append({"kind": "bucket-mismatch", "detail": {"python": py, "js": jsc}, "case": sub})
        if bool(r["ex"]) != bool(pyex):
            viol.append({"kind": "excluded-mismatch", "detail": {"python": pyex, "js": r["ex"]}, "case": sub})
        if json.dumps(tags) in LOOKALIKES:
            outcomes.add("lookalike-agree")
            continue
        # python against the statement's own rule (exact special tags in any letter case, ordinary tags, missing / empty lists)
        refb = money.bucket(amount, tags)
        if amount != 0 and (pyb != [refb] or py[refb] != abs(amount)):
            viol.append({"kind": "python-vs-reference", "detail": {"python": py, "reference_bucket": refb}, "case": sub})
        if amount == 0 and pyb:
            viol.append({"kind": "python-vs-reference", "detail": {"python": py, "reference": "all zero"}, "case": sub})
        if bool(pyex) != money.excluded(tags):
            viol.append({"kind": "python-vs-reference", "detail": {"excluded": pyex, "reference": money.excluded(tags)}, "case": sub})
        outcomes.add((pyb[0] if pyb else "zero") + ("/excl" if pyex else ""))
        low = [t for t in (tags or []) if t.lower() in SPECIAL]
        if any(t != t.lower() for t in low) or len({t.lower() for t in low}) >= 2 or amount == 0:
            nontrivial += 1
    for (a, b, c), r in zip(case.get("cash", []), js["cash"]):
        evals += 1
        py = C.calculate_cash_flow(a, b, c)
        if float(r) != float(py) or py != a - b + c:
            viol.append({"kind": "cash-flow-mismatch", "detail": {"python": py, "js": r, "formula": a - b + c}, "case": {"cash": [[a, b, c]]}})
        outcomes.add("cash")
        if b and c:
            nontrivial += 1
    if case.get("classify"):
        # the same list object classified, edited in place, classified again: every call sees the list as it is now
        L = ["food"]
        seq = []
        for edit in (None, ("append", "Income"), ("remove", "Income"), ("append", "transfer"), ("insert0", "INVESTMENT"), ("clear", None)):
            if edit:
                {"append": lambda v: L.append(v), "remove": lambda v: L.remove(v), "insert0": lambda v: L.insert(0, v), "clear": lambda v: L.clear()}[edit[0]](edit[1])
            evals += 1
            got = ([k for k, v in C.categorize_amount(50.0, L).items() if v != 0], C.is_excluded_from_spending(L))
            want = ([money.bucket(50.0, list(L))], money.excluded(list(L)))
            if got != want:
                viol.append({"kind": "python-vs-reference", "detail": {"after_in_place_edits": list(L), "python": got, "reference": want},
                             "case": {"classify": [[50.0, list(L)]]}})
    first = (case.get("classify") or case.get("cash"))[0]
    return {"evals": evals, "nontrivial": nontrivial, "outcomes": sorted(outcomes), "violations": viol,
            "sample_repr": {"first_input_of_chunk": first, "inputs_in_chunk": evals}}
