"""C08 - a rule that fails to evaluate is skipped; it never aborts classification.

Exhaustive product: {56 syntactically valid but ill-typed or partial expressions (always failing, or failing
only for some items)} x {positions: match, let, field, tag, transform (before / after a decisive transform of the same field), top-level variable} x {bad element first /
middle / last among good rules} x 10 transactions processed IN SEQUENCE through one engine (items on which the
expression fails come before items on which it works), through MerchantEngine.match, the
get_all_rules/normalize_merchant path and parse_generic_csv; plus 14 view filters x {view filter, view-local variable, global variable}
x positions through analyze_transactions -> classify_by_sections.  Differential oracle (no hand-written
expectations): the call returns normally; per item the result equals that of a fresh engine on the same file,
and for every item on which the expression raises when evaluated alone it equals the result of the file with
that rule / binding / field / tag / transform / variable / view removed; every row is returned.
"""
import copy
import datetime as dt
import functools
import itertools
import os

import shutil

from mc.core import harness as H
from mc.core import proc
from mc.checks import rules_common as R

PROPERTY = "C08"
LEVEL = "exploration"
RULE = ("cases = every (expression, position, placement) triple over 59 ill-typed/partial/lazily failing transaction expressions x 10 positions x 3 placements, "
        "and every (filter, kind, placement) triple over 14 view expressions x 3 kinds x 3 placements (thorough adds all ordered pairs of two bad "
        "rules); each case classifies 10 transactions (4 merchants for views) through 3 entry points. non-trivial = cases whose file the loader "
        "accepts and whose expression raises for at least one item; triples distinct by construction")
ASSUMPTIONS = ["'fails for an item' is decided by evaluating the expression alone on that item with the real evaluator",
               "let: cases either do not mention the binding in match: or use it in a way that fails for unbound and for None alike",
               "files the loader rejects are outside the property and only counted"]

BAD = [
    # a divisor that is an empty string / an empty list / None is not zero: the expression fails
    'amount / extract("(QQQ)") < 5000', 'amount % [r for r in orders if r.amount > 100000] == 0', 'amount / next((r.nope for r in orders if false), None) >= 0',
    'contains(5)', 'amount > "x"', 'description + 1', '-description', 'regex("(")', 'regex_replace(description, "(", "")', 'extract("(")',
    'field.nope == 1', 'nope', 'nope_fn(1)', 'next(r for r in orders if false)', 'min(r.amount for r in orders if false)', 'orders[99]',
    'orders[0].nope', 'sum(r.item for r in orders)', 'len(amount)', 'split("-", "a")', 'substring("a", 1)', 'date > 5', 'date > "soon"',
    'abs(description)', 'description.replace(1, 2)', 'fuzzy(5)', 'anyof(1)', 'trim(1, 2)', 'uppercase()', 'any(amount)', '[r for r in amount]',
    'description[99]', 'description["a"]', 'round(description)', 'amount % "x"', '1 / description', 'contains(description, 5)', 'startswith(None)',
    'normalized(amount)', 'exists()', 'len()', 'sum()', 'next(5)', 'max(description, 5)', 'field.memo + 1', 'month == nope', 'not nope',
    'orders[0].amount > "x"', 'strip_prefix(description)', 'lowercase(1, 2)',
    # partial: fail only for some items
    'extract(field.memo, "(\\\\d+)") != ""', 'date >= "2025-01-01"', 'field.type == "WIRE"', 'next(r for r in orders if r.amount == amount).item == "Book"',
    'description[8] == "1"',
    # lazily failing: the expression itself evaluates (to a generator), consuming it fails
    '(r for r in amount)', '(r.nope for r in orders)', '(1 / description for r in orders)', '[x for x in (r.nope for r in orders)]',
]
POSITIONS = ["match", "match-let-shadow", "let-chain", "let-unused", "let-used", "field", "tag", "transform", "transform-after", "variable"]
PLACEMENTS = ["first", "middle", "last"]

VIEW_BAD = ['total > "x"', 'sum(by("month")) > 5', 'by("nope")', 'period("nope") > 1', 'max_val(1) > 0', 'avg("x") > 1', '"x" in total', 'tags > 1',
            'nope', 'nope_fn(1)', 'sum(payments) > "x"', 'category + 1 == 2', 'months > cv > "a"', 'min(by("month")) > 5']
VIEW_KINDS = ["filter", "variable", "global-variable"]

TXNS = [  # failing-first order for the partial expressions: no field / no date first
    {"description": "NETFLIX 123", "amount": 50.0, "date": None, "field": None, "source": None},
    {"description": "NETFLIX 9", "amount": 99.75, "date": "2024-12-31", "field": {"type": "ach"}, "source": "chase"},
    {"description": "UBER", "amount": 7.0, "date": None, "field": {"memo": "no digits", "type": "WIRE"}, "source": "Amex"},
    {"description": "NETFLIX 123", "amount": 50.0, "date": "2025-01-15", "field": {"memo": "REF 77", "type": "WIRE"}, "source": "Amex"},
    {"description": "NETFLIX 9", "amount": 99.75, "date": "2025-02-01", "field": {"memo": "REF 8", "type": "WIRE"}, "source": "Amex"},
    {"description": "COFFEE 1", "amount": 0.25, "date": "2025-02-01", "field": {"memo": "x1", "type": "ACH"}, "source": "chase"},
    {"description": "UBER TRIP 1", "amount": 120.0, "date": "2025-03-01", "field": {"memo": "REF 9", "type": "WIRE"}, "source": "Amex"},
    {"description": "MISC", "amount": -5.0, "date": None, "field": None, "source": None},
    {"description": "MISC 44", "amount": 99.75, "date": "2025-03-02", "field": {"memo": "REF 44", "type": "WIRE"}, "source": "Amex"},
    {"description": "NETFLIX 123", "amount": 50.0, "date": None, "field": None, "source": None},
]
ORDERS = {"orders": [{"item": "Book", "amount": 99.75, "date": dt.date(2025, 1, 15)}, {"item": "Pen", "amount": 0.25, "date": dt.date(2025, 2, 1)}]}

GOOD1 = {"name": "Netflix", "match": 'contains("NETFLIX")', "category": "Subs", "subcategory": "Streaming", "tags": "video"}
GOOD2 = {"name": "Small", "match": "amount < 10", "category": "Small", "tags": "tiny"}


def bounds(tier):
    return {"bad_expressions": len(BAD), "positions": POSITIONS, "placements": PLACEMENTS, "view_expressions": len(VIEW_BAD), "transactions": len(TXNS),
            "pairs_of_bad_rules": tier == "thorough"}


def gen_cases(tier):
    for e in range(len(BAD)):
        for p in POSITIONS:
            for pl in PLACEMENTS:
                yield {"kind": "rules", "expr": [e], "pos": [p], "placement": pl}
    if tier == "thorough":
        for e1, e2 in itertools.permutations(range(len(BAD)), 2):
            yield {"kind": "rules", "expr": [e1, e2], "pos": ["match", "tag"], "placement": "middle"}
            yield {"kind": "rules", "expr": [e1, e2], "pos": ["variable", "let-used"], "placement": "first"}
    for e in range(len(VIEW_BAD)):
        for k in VIEW_KINDS:
            for pl in PLACEMENTS:
                yield {"kind": "views", "expr": e, "vkind": k, "placement": pl}
    for b in range(len(CSV_BAD_ROWS)):
        for pl in PLACEMENTS:
            yield {"kind": "csvrules", "bad": b, "placement": pl}
    for b in range(len(CSV_TAGBAD)):
        for pl in PLACEMENTS:
            yield {"kind": "csvtags", "tagbad": b, "placement": pl}


# ------------------------------------------------------------------------------------------------ rules files
def build(exprs, positions, placement, remove=False):
    """Returns (preamble lines, rules list). With remove=True the failing element is left out ('as if it did not exist')."""
    pre, bad_rules = [], []
    for n, (e, pos) in enumerate(zip(exprs, positions)):
        x = BAD[e]
        name = f"Bad{n}"
        if pos == "match":
            if not remove:
                bad_rules.append({"name": name, "match": x, "category": "BadCat", "subcategory": "B", "tags": "badtag"})
        elif pos == "match-let-shadow":
            # the failing rule binds (successfully) a let: name that shadows a global variable; the rule right after it reads the global
            pre.append("big = amount > 100000")
            if not remove:
                bad_rules.append({"name": name, "let": [("big", "amount > 0"), ("zz", '"NETFLIX"')], "match": x, "category": "BadCat", "tags": "badtag"})
            bad_rules.append({"name": f"UsesBig{n}", "match": "big", "category": "BigCat", "tags": "bg"})
            bad_rules.append({"name": f"UsesZz{n}", "match": "contains(zz)", "category": "ZzCat", "tags": "zt"})
        elif pos == "let-chain":
            # the failing binding comes first; the condition only uses a later, independent binding of the same rule
            r = {"name": name, "match": 'contains("NETFLIX") and big and small', "category": "ChainCat", "tags": "ch",
                 "let": ([] if remove else [("b", x)]) + [("big", "amount > 60"), ("small", "amount < 1000")]}
            bad_rules.append(r)
        elif pos == "let-unused":
            r = {"name": name, "match": 'contains("NETFLIX") and amount > 60', "category": "LetCat", "tags": "lt"}
            if not remove:
                r["let"] = [("b", x)]
            bad_rules.append(r)
        elif pos == "let-used":
            # the binding is used so that the rule fails whether b is unbound or None
            if not remove:
                bad_rules.append({"name": name, "let": [("b", x)], "match": "b + 1 > 0 or len(b) > 0 or any(b)", "category": "LetUsed", "tags": "lu"})
        elif pos == "field":
            r = {"name": name, "match": 'contains("NETFLIX") and amount > 60', "category": "FieldCat", "tags": "ft"}
            r["fields"] = [("ok", "amount * 2")] + ([] if remove else [("bad", x)])
            bad_rules.append(r)
        elif pos == "tag":
            bad_rules.append({"name": name, "match": 'contains("NETFLIX") and amount > 60', "category": "TagCat",
                              "tags": "keep" if remove else "keep, {" + x + "}"})
        elif pos == "transform":
            if not remove:
                pre.append(f"field.description = {x}")
            # a later, evaluable transform that decides classification: "MISC ..." rows become NETFLIX rows
            pre.append('field.description = regex_replace(field.description, "^MISC", "NETFLIX")')
        elif pos == "transform-after":
            # an EARLIER, evaluable transform of the same field decides classification; the failing one comes after it and
            # must leave the earlier one's effect in place
            pre.append('field.description = regex_replace(field.description, "^MISC", "NETFLIX")')
            if not remove:
                pre.append(f"field.description = {x}")
                pre.append(f"field.memo = {x}")
        elif pos == "variable":
            if not remove:
                pre.append(f"v{n} = {x}")
            bad_rules.append({"name": name, "match": f"v{n}", "category": "VarCat", "tags": "vt"})
    if placement == "first":
        rules = bad_rules + [GOOD1, GOOD2]
    elif placement == "middle":
        rules = [GOOD1] + bad_rules + [GOOD2]
    else:
        rules = [GOOD1, GOOD2] + bad_rules
    return R.render_file(pre, rules)


# expressions that fail for EVERY transaction by construction (the divisor is '' / [] / None): known independently of the evaluator
ALWAYS_FAIL = {'amount / extract("(QQQ)") < 5000', 'amount % [r for r in orders if r.amount > 100000] == 0',
               'amount / next((r.nope for r in orders if false), None) >= 0'}


def fails_alone(expr, t):
    if expr in ALWAYS_FAIL:
        return True
    from tally.expr_parser import evaluate_transaction
    try:
        evaluate_transaction(expr, R.txn_dict(t), None, copy.deepcopy(ORDERS))
        return False
    except Exception:  # noqa
        return True


def run_engine_seq(text):
    """One engine for all transactions, in order. Returns list of results or an exception marker."""
    from tally.merchant_engine import parse_merchants
    H.reset_state()
    eng = parse_merchants(text)
    out = []
    for t in TXNS:
        try:
            out.append(R.engine_result(eng, t, data_sources=copy.deepcopy(ORDERS)))
        except Exception as e:  # noqa
            out.append({"EXCEPTION": f"{type(e).__name__}: {str(e)[:120]}"})
    return out


def run_engine_fresh(text):
    from tally.merchant_engine import parse_merchants
    out = []
    for t in TXNS:
        H.reset_state()
        eng = parse_merchants(text)
        try:
            out.append(R.engine_result(eng, t, data_sources=copy.deepcopy(ORDERS)))
        except Exception as e:  # noqa
            out.append({"EXCEPTION": f"{type(e).__name__}: {str(e)[:120]}"})
    return out


def run_normalize_seq(text):
    path = R.write_scratch("m.rules", text)
    rules, transforms = R.load_path(path)
    out = []
    for t in TXNS:
        try:
            out.append(R.normalize_result(rules, transforms, t, data_sources=copy.deepcopy(ORDERS)))
        except Exception as e:  # noqa
            out.append({"EXCEPTION": f"{type(e).__name__}: {str(e)[:120]}"})
    H.reset_state()
    return out


def run_csv(text):
    """parse_generic_csv over a statement holding the transactions that have a date (all rows must come back)."""
    from tally.parsers import parse_generic_csv
    from tally.format_parser import parse_format_string
    path = R.write_scratch("m.rules", text)
    rules, transforms = R.load_path(path)
    rows = [t for t in TXNS if t["date"]]
    lines = ["Date,Description,Amount,Memo,Type"]
    for t in rows:
        f = t["field"] or {}
        lines.append(",".join([dt.date.fromisoformat(t["date"]).strftime("%m/%d/%Y"), t["description"], repr(t["amount"]),
                               f.get("memo", ""), f.get("type", "")]))
    sp = R.write_scratch("stmt.csv", "\n".join(lines) + "\n")
    spec = parse_format_string("{date:%m/%d/%Y},{description},{amount},{memo},{type}")
    try:
        txns = parse_generic_csv(sp, spec, rules, source_name="Amex", transforms=transforms, data_sources=copy.deepcopy(ORDERS))
        res = [(x["raw_description"], x["amount"], x["merchant"], x["category"], x["subcategory"], sorted(x["tags"])) for x in txns]
    except Exception as e:  # noqa
        res = {"EXCEPTION": f"{type(e).__name__}: {str(e)[:120]}"}
    H.reset_state()
    return res, len(rows)


def strip(r):
    return {k: v for k, v in r.items() if k != "pattern"}


def check_rules(case):
    from tally.merchant_engine import parse_merchants, MerchantParseError
    exprs, positions, placement = case["expr"], case["pos"], case["placement"]
    full = build(exprs, positions, placement)
    try:
        H.reset_state()
        parse_merchants(full)
    except MerchantParseError:
        return {"evals": 1, "nontrivial": 0, "outcomes": ["loader-rejects"], "violations": [], "sample_repr": {"file": full, "rejected": True}}
    reduced = build(exprs, positions, placement, remove=True)
    viol, evals = [], 0
    import re as _re
    # what the failing element sees: after an earlier decisive transform the description already reads NETFLIX...
    seen = [dict(t, description=_re.sub("^MISC", "NETFLIX", t["description"])) if "transform-after" in positions else t for t in TXNS]
    fail = [all(fails_alone(BAD[e], t) for e in exprs) for t in seen]
    anyfail = [any(fails_alone(BAD[e], t) for e in exprs) for t in seen]
    seq_a, fresh_a, red_a = run_engine_seq(full), run_engine_fresh(full), run_engine_fresh(reduced)
    seq_b, red_b = run_normalize_seq(full), run_normalize_seq(reduced)
    csv_full, nrows = run_csv(full)
    csv_red, _ = run_csv(reduced)
    outcomes = set()
    for ti, t in enumerate(TXNS):
        for ep, seq, fresh, red in (("engine", seq_a, fresh_a, red_a), ("normalize", seq_b, None, red_b)):
            evals += 1
            sub = {"entry": ep, "txn": t, "file": full}
            if "EXCEPTION" in seq[ti]:
                viol.append({"kind": "exception-escapes-classification", "detail": {**sub, "exception": seq[ti]["EXCEPTION"]}})
                continue
            if fresh is not None and seq[ti] != fresh[ti]:
                viol.append({"kind": "failure-on-one-item-affects-another", "detail": {**sub, "in_sequence": seq[ti], "fresh_engine": fresh[ti]}})
            if fail[ti]:
                outcomes.add("fails-for-item")
                if "EXCEPTION" not in red[ti] and strip(seq[ti]) != strip(red[ti]):
                    viol.append({"kind": "failing-element-changes-outcome", "detail": {**sub, "with_failing_element": seq[ti], "without_it": red[ti]}})
            elif not anyfail[ti]:
                outcomes.add("evaluates-for-item")
    evals += 1
    if isinstance(csv_full, dict):
        viol.append({"kind": "exception-escapes-classification", "detail": {"entry": "parse_generic_csv", "file": full, "exception": csv_full["EXCEPTION"]}})
    else:
        if len(csv_full) != nrows:
            viol.append({"kind": "rows-lost", "detail": {"entry": "parse_generic_csv", "file": full, "rows_in": nrows, "rows_out": len(csv_full)}})
        elif not isinstance(csv_red, dict):
            rows = [t for t in TXNS if t["date"]]
            for (t, a, b) in zip(rows, csv_full, csv_red):
                f = t["field"] or {}
                as_read = dict(t, source="Amex", field={"memo": f.get("memo", ""), "type": f.get("type", "")})   # what the CSV reader yields
                if "transform-after" in positions:
                    as_read["description"] = _re.sub("^MISC", "NETFLIX", as_read["description"])
                if all(fails_alone(BAD[e], as_read) for e in exprs) and a != b:
                    viol.append({"kind": "failing-element-changes-outcome", "detail": {"entry": "parse_generic_csv", "file": full, "row": a, "without_it": b}})
    return {"evals": evals, "nontrivial": 1 if any(anyfail) else 0, "outcomes": sorted(outcomes), "violations": viol[:12],
            "sample_repr": {"file": full, "positions": positions}}


# ------------------------------------------------------------------------------------------------ views
def view_text(e, vkind, placement, remove=False):
    good1 = "[Food]\nfilter: category == \"Food\"\n"
    good2 = "[Big]\nlim = 50\nfilter: total > lim\n"          # a view with its own local variable
    pre = ""
    if vkind == "filter":
        bad = f"[BadView]\nfilter: {VIEW_BAD[e]}\n"
    elif vkind == "variable":
        bad = f"[BadView]\ng = {VIEW_BAD[e]}\nfilter: g > 0 or count(g) > 0\n"
    else:
        # the failing expression is a GLOBAL variable; only BadView uses it
        pre = "" if remove else f"gbad = {VIEW_BAD[e]}\n\n"
        bad = "[BadView]\nfilter: gbad > 0 or count(gbad) > 0\n"
    blocks = {"first": [bad, good1, good2], "middle": [good1, bad, good2], "last": [good1, good2, bad]}[placement]
    if remove:
        blocks = [b for b in blocks if b is not bad]
    return pre + "\n".join(blocks)


def view_inputs():
    base = dt.datetime(2025, 1, 10)
    t = []
    for m, cat, amounts in (("Grocer", "Food", [30.0, 40.0]), ("Cafe", "Food", [5.0]), ("Landlord", "Bills", [900.0, 900.0]), ("Payroll", "Income", [-2000.0])):
        for i, a in enumerate(amounts):
            t.append({"merchant": m, "category": cat, "subcategory": "S", "amount": a, "date": dt.datetime(2025, 1 + i, 10), "description": m,
                      "raw_description": m.upper(), "source": "S", "tags": ["income"] if m == "Payroll" else ["x"]})
    return t


def membership(text):
    from tally.section_engine import parse_sections
    from tally.analyzer import analyze_transactions, classify_by_sections
    H.reset_state()
    cfg = parse_sections(text)
    stats = analyze_transactions(view_inputs())
    res = classify_by_sections(stats["by_merchant"], cfg, stats["num_months"])
    return {k: sorted(m for m, _ in v) for k, v in res.items()}


def check_views(case):
    from tally.section_engine import SectionParseError
    e, vkind, placement = case["expr"], case["vkind"], case["placement"]
    text = view_text(e, vkind, placement)
    viol = []
    try:
        full = membership(text)
    except SectionParseError:
        return {"evals": 1, "nontrivial": 0, "outcomes": ["loader-rejects"], "violations": [], "sample_repr": {"views": text, "rejected": True}}
    except Exception as ex:  # noqa
        return {"evals": 1, "nontrivial": 1, "outcomes": ["exception"], "violations": [
            {"kind": "exception-escapes-classification", "detail": {"entry": "classify_by_sections", "views": text, "exception": f"{type(ex).__name__}: {str(ex)[:150]}"}}],
            "sample_repr": {"views": text}}
    red = membership(view_text(e, vkind, placement, remove=True))
    if full.get("BadView"):
        viol.append({"kind": "unevaluable-view-has-members", "detail": {"views": text, "members": full["BadView"]}})
    rest = {k: v for k, v in full.items() if k != "BadView"}
    if rest != red:
        viol.append({"kind": "failing-element-changes-outcome", "detail": {"views": text, "with_failing_view": rest, "without_it": red}})
    evals = 2
    if vkind == "filter":
        # the same views file in a budget on disk: `tally explain <merchant>` lists the views a merchant belongs to - with the failing view
        # in the file it must list what it lists without it
        lists = {}
        for label, vt in (("with", text), ("without", view_text(e, vkind, placement, remove=True))):
            base = _views_budget(vt)
            for merchant in ("Grocer", "Landlord"):
                evals += 1
                r = proc.run_cli(["explain", merchant, "--format", "json"], cwd=base)
                try:
                    doc = proc.json_document(r["stdout"])
                    lists[(label, merchant)] = sorted(v["name"] for v in doc.get("views", []) if v["name"] != "BadView") if "views" in doc else None
                except Exception:  # noqa
                    lists[(label, merchant)] = f"exit {r['exit']}: no JSON document; stderr: {r['stderr'][-200:]}"
                if r["exit"] == 70 or "Traceback (most recent call last)" in r["stderr"]:
                    viol.append({"kind": "exception-escapes-classification", "detail": {"entry": "tally explain " + merchant, "views": vt, "stderr_tail": r["stderr"][-300:]}})
            shutil.rmtree(base, ignore_errors=True)
        for merchant in ("Grocer", "Landlord"):
            if lists[("with", merchant)] != lists[("without", merchant)]:
                viol.append({"kind": "failing-element-changes-outcome", "detail": {"entry": "tally explain " + merchant + " --format json", "views": text,
                                                                                   "views_listed_with_failing_view": lists[("with", merchant)],
                                                                                   "without_it": lists[("without", merchant)]}})
    return {"evals": evals, "nontrivial": 1, "outcomes": ["view-excluded"], "violations": viol, "sample_repr": {"views": text}}


def _views_budget(views_text):
    base = os.path.join(R.scratch(), "c08views")
    shutil.rmtree(base, ignore_errors=True)
    os.makedirs(os.path.join(base, "config"))
    os.makedirs(os.path.join(base, "data"))
    with open(os.path.join(base, "config", "settings.yaml"), "w") as f:
        f.write('year: 2025\nmerchants_file: config/merchants.rules\nviews_file: config/views.rules\ndata_sources:\n  - name: S\n    file: data/s.csv\n'
                '    format: "{date:%Y-%m-%d},{description},{amount}"\n')
    with open(os.path.join(base, "config", "merchants.rules"), "w") as f:
        f.write('[Grocer]\nmatch: contains("GROCER")\ncategory: Food\nsubcategory: S\ntags: x\n\n[Cafe]\nmatch: contains("CAFE")\ncategory: Food\nsubcategory: S\ntags: x\n\n'
                '[Landlord]\nmatch: contains("LANDLORD")\ncategory: Bills\nsubcategory: S\ntags: x\n\n[Payroll]\nmatch: contains("PAYROLL")\ncategory: Income\nsubcategory: S\ntags: income\n')
    with open(os.path.join(base, "config", "views.rules"), "w") as f:
        f.write(views_text)
    with open(os.path.join(base, "data", "s.csv"), "w") as f:
        f.write("Date,Description,Amount\n2025-01-10,GROCER,30.00\n2025-02-10,GROCER,40.00\n2025-01-10,CAFE,5.00\n2025-01-10,LANDLORD,900.00\n2025-02-10,LANDLORD,900.00\n"
                "2025-01-10,PAYROLL,-2000.00\n")
    return base


# ------------------------------------------------------------------------------------------------ legacy CSV rule files
CSV_BAD_ROWS = ["COSTCO (GAS,BadParen,Bad,B,t", "*STAR,BadStar,Bad,B,", "UBER[,BadBracket,Bad,B,", "(?P<n>x)(?P<n>y),BadGroup,Bad,B,", "NETFLIX\\,BadEscape,Bad,B,",
                "contains(,BadExpr,Bad,B,", "field.nope == 1,NoField,Bad,B,t", "amount > \"x\",BadType,Bad,B,"]
# a valid categorising row whose Tags cell holds an entry that fails (lazily or at once) for every / some transactions: only that tag is lost
CSV_TAGBAD = ["NETFLIX,NetGen,Subs,Streaming,{(c for c in field.flags)}|keep", "UBER,UberBad,Transport,Ride,{1 / description}|keep2",
              "NETFLIX,NetField,Subs,Streaming,{field.nope}|keep3"]
CSV_GOOD = ["NETFLIX,Netflix,Subs,Streaming,video", "UBER,Uber,Transport,Ride,", "COFFEE[amount<10],Coffee,Food,Cafe,small"]


def csv_text(bad, placement, remove):
    rows = list(CSV_GOOD)
    if not remove:
        rows.insert({"first": 0, "middle": 1, "last": len(rows)}[placement], CSV_BAD_ROWS[bad])
    return "Pattern,Merchant,Category,Subcategory,Tags\n" + "\n".join(rows) + "\n"


def run_csvrules(text):
    path = R.write_scratch("merchant_categories.csv", text)
    H.reset_state()
    out = []
    try:
        rules, transforms = R.load_path(path)
    except Exception as e:  # noqa
        return {"EXCEPTION": f"loading: {type(e).__name__}: {str(e)[:120]}"}
    for t in TXNS:
        try:
            out.append(strip(R.normalize_result(rules, transforms, t)))
        except Exception as e:  # noqa
            out.append({"EXCEPTION": f"{type(e).__name__}: {str(e)[:120]}"})
    H.reset_state()
    return out


def check_csvtags(case):
    row = CSV_TAGBAD[case["tagbad"]]
    cells = row.split(",")
    keep = [t for t in cells[4].split("|") if not t.startswith("{")]
    reduced_row = ",".join(cells[:4] + ["|".join(keep)])
    head = "Pattern,Merchant,Category,Subcategory,Tags\n"
    place = {"first": 0, "middle": 1, "last": len(CSV_GOOD)}[case["placement"]]
    full_rows, red_rows = list(CSV_GOOD), list(CSV_GOOD)
    full_rows.insert(place, row)
    red_rows.insert(place, reduced_row)
    full, red = run_csvrules(head + "\n".join(full_rows) + "\n"), run_csvrules(head + "\n".join(red_rows) + "\n")
    viol, evals = [], 0
    text = head + "\n".join(full_rows) + "\n"
    if isinstance(full, dict) or isinstance(red, dict):
        viol.append({"kind": "exception-escapes-classification", "detail": {"entry": "legacy CSV rules", "file": text, "exception": str(full if isinstance(full, dict) else red)[:200]}})
    else:
        for t, a, b in zip(TXNS, full, red):
            evals += 1
            if "EXCEPTION" in a:
                viol.append({"kind": "exception-escapes-classification", "detail": {"entry": "legacy CSV rules", "file": text, "txn": t, "exception": a["EXCEPTION"]}})
            elif dict(a, tags=sorted(a.get("tags", []))) != dict(b, tags=sorted(b.get("tags", []))):
                viol.append({"kind": "failing-element-changes-outcome", "detail": {"entry": "legacy CSV rules (failing tag)", "file": text, "txn": t,
                                                                                   "with_failing_tag": a, "without_it": b}})
    return {"evals": evals, "nontrivial": 1, "outcomes": ["csv-tag-dropped" if not viol else "csv-tag-problem"], "violations": viol[:8], "sample_repr": {"file": text}}


def check_csvrules(case):
    full, red = run_csvrules(csv_text(case["bad"], case["placement"], False)), run_csvrules(csv_text(case["bad"], case["placement"], True))
    viol, evals = [], 0
    text = csv_text(case["bad"], case["placement"], False)
    if isinstance(full, dict):
        viol.append({"kind": "exception-escapes-classification", "detail": {"entry": "legacy CSV rules", "file": text, "exception": full["EXCEPTION"]}})
    else:
        for t, a, b in zip(TXNS, full, red):
            evals += 1
            if "EXCEPTION" in a:
                viol.append({"kind": "exception-escapes-classification", "detail": {"entry": "legacy CSV rules", "file": text, "txn": t, "exception": a["EXCEPTION"]}})
            elif a != b and a.get("category") != "Bad":
                # a row that cannot be evaluated is skipped: every transaction gets what the file without that row gives
                viol.append({"kind": "failing-element-changes-outcome", "detail": {"entry": "legacy CSV rules", "file": text, "txn": t, "with_failing_row": a, "without_it": b}})
    return {"evals": evals, "nontrivial": 1, "outcomes": ["csv-row-skipped" if not viol else "csv-row-problem"], "violations": viol[:8],
            "sample_repr": {"file": text}}


def check_case(case):
    if case.get("kind") == "csvrules":
        return check_csvrules(case)
    if case.get("kind") == "csvtags":
        return check_csvtags(case)
    return check_rules(case) if case["kind"] == "rules" else check_views(case)
