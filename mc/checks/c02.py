"""C02 - tags are the union over all matching rules; tag-only rules never categorise.

Exhaustive: every ordered sequence of <= K distinct blocks over a 14-block .rules alphabet (static and
dynamic tags; tag-only rules that are more specific than the categorising ones) in BOTH rule modes, and
every sequence of <= K legacy CSV rows with pipe-separated tags; each file x 96 transactions, through
MerchantEngine.match and the get_all_rules/normalize_merchant path.
"""
import ast
import functools
import itertools
import re

from mc.core import harness as H
from mc.checks import rules_common as R

PROPERTY = "C02"
LEVEL = "exploration"
RULE = ("cases = every ordered sequence of 1..K distinct blocks (K=3 quick, 4 thorough) over 21 .rules blocks "
        "(6 categorising with static / mixed-case / {field.x} / {source} / {extract()} tags, 7 tag-only incl. one sharing its match text with a categorising rule at low priority, one with case-significant dynamic tag expressions, one more specific than "
        "every categorising rule, one with an unevaluable {field.nope} and an empty {} tag; transfer / investment tags from separate rules; a := binder and a dynamic tag reading that name; two rules binding one let name to different constants, both tagged {ref}) x 2 rule modes, plus every sequence of 1..K "
        "rows over 7 legacy CSV rows with a|B and dynamic tags; each file on 120 transactions via engine.match, normalize_merchant and (tags read back) analyze_transactions. "
        "non-trivial = file where some transaction is matched by >=2 tag-bearing rules or by a tag-only rule; files distinct by construction")
ASSUMPTIONS = ["truth of a .rules condition comes from the real evaluator on the one-rule file (C04 judges meaning)",
               "value of a {expression} tag is taken from evaluate_transaction on that expression alone; dropped when falsy, blank or an expression error",
               "dynamic tags in the alphabet reference no global variable and only constant let bindings of their own rule; list-valued dynamic tags are outside the documented forms"]

RULES = [
    {"name": "Netflix", "match": 'contains("NETFLIX")', "category": "Subs", "subcategory": "Streaming", "tags": "a"},
    {"name": "Uber", "match": 'contains("UBER")', "category": "Transport", "subcategory": "Ride", "tags": "A , b"},
    {"name": "UberEats", "match": 'contains("UBER") and contains("EATS")', "category": "Food", "subcategory": "Delivery",
     "tags": "{field.type}"},
    {"name": "Big", "match": "amount > 100", "category": "Big", "tags": "{source}, big"},
    {"name": "Numbered", "match": 'regex("\\\\d+")', "category": "Numbered", "tags": '{extract("(\\\\d+)")}'},
    {"name": "Plain", "match": 'contains("AMAZON")', "category": "Shopping"},
    {"name": "TagLarge", "match": "amount > 100", "tags": "large"},
    {"name": "TagRide", "match": 'contains("UBER")', "tags": "{}, ride, , {  }, last"},
    {"name": "TagSpecific", "match": 'contains("UBER") and contains("EATS") and amount > 0 and source == "Amex"',
     "tags": "premium, {field.nope}"},
    {"name": "TagSub", "match": 'contains("UBER") and contains("TRIP") and contains("77")', "tags": "Trip", "subcategory": "Sneaky",
     "merchant": "Renamed"},
    {"name": "TagPrio", "match": 'contains("NETFLIX")', "tags": "vip", "priority": 90},
    # same match text as the categorising [Uber] rule, low priority
    {"name": "TagLow", "match": 'contains("UBER")', "tags": "low", "priority": 10},
    # dynamic tags whose expression text is case-significant (\\S vs \\s, "F" vs "f")
    {"name": "TagCase", "match": 'contains("TRIP") or contains("NETFLIX")',
     "tags": '{extract("TRIP (\\S+)")}, {split(field.memo, "F", 1)}, {extract(field.memo, "REF\\s(\\S+)")}'},
    # dynamic tag values containing runs of blanks / tabs are kept as they are (only stripped at the ends and lower-cased); the
    # condition reads neither field nor source, so two transactions that differ only there still get their own tag values
    {"name": "TagWs", "match": "amount > 0 or amount < 0", "tags": "{field.memo}, {field.type}, {source}"},
    # dynamic tags whose expression itself contains braces (counted quantifiers)
    # two different special tags reach one transaction from different rules (all of them stay on it)
    {"name": "TagXfer", "match": 'contains("NETFLIX")', "tags": "transfer"},
    {"name": "TagInv", "match": 'contains("NETFLIX") or contains("UBER")', "tags": "investment, Income"},
    # := inside a condition binds a name for that expression only: a later rule's {wn} tag cannot see it
    {"name": "Walrus", "match": '(wn := extract("(\\d+)")) != ""', "category": "WalrusCat", "tags": "w"},
    {"name": "TagWn", "match": 'contains("NETFLIX") or contains("UBER")', "tags": "{wn}, wtag"},
    # two rules bind the SAME let name to different constants and carry the same tag text {ref}: each contributes its own value
    {"name": "LetRefA", "let": [("ref", '"acme"')], "match": 'contains("NETFLIX") or contains("UBER")', "tags": "{ref}, alpha"},
    {"name": "LetRefB", "let": [("ref", '"Billing"')], "match": 'contains("NETFLIX") or contains("TRIP")', "category": "Bills", "tags": "{ref}"},
    {"name": "TagBrace", "match": 'contains("NETFLIX") or contains("TRIP")', "tags": '{extract("(\\d{3})")}, {extract("TRIP (\\d{2})")}, {extract(field.memo, "REF (\\d{1,3})")}'},
]
CSVROWS = [
    {"pattern": "NETFLIX", "merchant": "Netflix", "category": "Subs", "subcategory": "Streaming", "tags": "a|B"},
    {"pattern": "UBER", "merchant": "Uber", "category": "Transport", "subcategory": "Ride", "tags": "{}|ride| |after"},
    {"pattern": "UBER EATS", "merchant": "UberEatsTag", "category": "", "subcategory": "", "tags": "Food| delivery "},
    {"pattern": "NETFLIX|UBER[amount>100]", "merchant": "BigTag", "category": "", "subcategory": "", "tags": "large"},
    {"pattern": "AMAZON", "merchant": "Amazon", "category": "Shopping", "subcategory": "Online", "tags": "{ source }|shop|{field.nope}|{  field.type}"},
    {"pattern": r"\d+", "merchant": "Numbered", "category": "Numbered", "subcategory": "", "tags": "a|num"},
    # a second categorising row with exactly the pattern text of the first one: it can never decide the category, but its tags count
    {"pattern": "NETFLIX", "merchant": "Netflix Again", "category": "Other", "subcategory": "Dup", "tags": "second|Dup2"},
]
MODES = ["first_match", "most_specific"]
TXNS = R.all_txns(ctxs=R.CTX + [R.CTX_WS, R.CTX_WS2])


def bounds(tier):
    return {"max_rules_per_file": 3 if tier == "quick" else 4, "rules_alphabet": len(RULES), "csv_rows_alphabet": len(CSVROWS),
            "modes": MODES, "transactions": len(TXNS)}


def gen_cases(tier):
    k = 3 if tier == "quick" else 4
    for n in range(1, k + 1):
        for seq in itertools.permutations(range(len(RULES)), n):
            for m in range(2):
                yield {"fmt": "rules", "mode": m, "rules": list(seq)}
    for n in range(1, k + 1):
        for seq in itertools.permutations(range(len(CSVROWS)), n):
            yield {"fmt": "csv", "rows": list(seq)}


def split_tags(s):
    out, depth, cur = [], 0, []
    for ch in s:
        if ch == "(":
            depth += 1
        elif ch == ")":
            depth -= 1
        if ch == "," and depth == 0:
            out.append("".join(cur))
            cur = []
        else:
            cur.append(ch)
    out.append("".join(cur))
    return [x.strip() for x in out if x.strip()]


@functools.lru_cache(maxsize=None)
def resolved_tags(i):
    """Reference tag set of rule i for every transaction."""
    from tally.expr_parser import evaluate_transaction, ExpressionError
    res = []
    for t in TXNS:
        s = set()
        for tag in split_tags(RULES[i].get("tags", "")):
            if tag.startswith("{") and tag.endswith("}"):
                e = tag[1:-1].strip()
                if not e:
                    continue
                lets = dict(RULES[i].get("let", []))
                if e in lets:
                    # a tag that names one of the rule's own let bindings (constants in this alphabet): its value, known without tally
                    s.add(str(ast.literal_eval(lets[e])).strip().lower())
                    continue
                try:
                    v = evaluate_transaction(e, R.txn_dict(t))
                except ExpressionError:
                    continue
                if v and str(v).strip():
                    s.add(str(v).strip().lower())
            else:
                s.add(tag.lower())
        res.append(s)
    return res


def csv_tags(i, t):
    """Reference tags of CSV row i for one transaction: pipe-separated, lower-cased; `{expression}` entries take the expression's
    value (blanks inside the braces ignored), and contribute nothing when empty, falsy or failing."""
    from tally.expr_parser import evaluate_transaction, ExpressionError
    out = set()
    for x in CSVROWS[i].get("tags", "").split("|"):
        x = x.strip()
        if not x:
            continue
        if x.startswith("{") and x.endswith("}"):
            e = x[1:-1].strip()
            if not e:
                continue
            try:
                v = evaluate_transaction(e, R.txn_dict(t))
            except ExpressionError:
                continue
            if v and str(v).strip():
                out.add(str(v).strip().lower())
        else:
            out.add(x.lower())
    return out


def _text(seq, force_cat=None, drop_tagonly=False):
    rules = []
    for i in seq:
        r = dict(RULES[i])
        if not r.get("category"):
            if drop_tagonly:
                continue
            if force_cat:
                r["category"] = force_cat
        rules.append(r)
    return R.render_file([], rules)


@functools.lru_cache(maxsize=30000)
def results(mode, seq, force_cat=None, drop_tagonly=False):
    from tally.merchant_engine import parse_merchants
    text = _text(seq, force_cat, drop_tagonly)
    H.reset_state()
    eng = parse_merchants(text, match_mode=MODES[mode])
    a = [R.engine_result(eng, t) for t in TXNS]
    path = R.write_scratch("m.rules", text)
    rules, transforms = R.load_path(path, MODES[mode])
    b = [R.normalize_result(rules, transforms, t) for t in TXNS]
    H.reset_state()
    return a, b


@functools.lru_cache(maxsize=None)
def truth(i):
    a, b = results(0, (i,), "ForcedCat")
    return [x["matched"] for x in a]


def analysed_tags(b):
    """The classified transactions run through the analysis step `tally up` reports from: every transaction keeps all its tags,
    and a merchant's tags are the union over its transactions."""
    import datetime as _dt
    from tally.analyzer import analyze_transactions
    txns = []
    for k, (t, r) in enumerate(zip(TXNS, b)):
        txns.append({"merchant": r["merchant"], "category": r["category"], "subcategory": r["subcategory"], "amount": t["amount"],
                     "date": _dt.datetime(2025, 1 + k % 3, 1 + k % 27), "description": r["merchant"], "raw_description": t["description"],
                     "source": t["source"] or "S", "tags": list(r["tags"])})
    want = {}
    for x in txns:
        want.setdefault(x["merchant"], set()).update(g.lower() for g in x["tags"])
    stats = analyze_transactions([dict(x, tags=list(x["tags"])) for x in txns])
    got = {m: {g.lower() for g in d.get("tags", [])} for m, d in stats["by_merchant"].items()}
    return want, got


def check_rules(case):
    mode, seq = case["mode"], tuple(case["rules"])
    a, b = results(mode, seq)
    tr = [truth(i) for i in seq]
    rt = [resolved_tags(i) for i in seq]
    viol, outcomes, nontrivial, evals = [], set(), False, 0
    if len(seq) <= 2:
        want_m, got_m = analysed_tags(b)
        evals += 1
        if want_m != got_m:
            bad = sorted(m for m in set(want_m) | set(got_m) if want_m.get(m) != got_m.get(m))[:3]
            viol.append({"kind": "tags-not-union", "detail": {"entry": "analyze_transactions (what the report shows)", "mode": MODES[mode],
                                                              "merchants": {m: {"classified": sorted(want_m.get(m, [])), "reported": sorted(got_m.get(m, []))} for m in bad}}})
    has_tagonly = any(not RULES[i].get("category") for i in seq)
    na, nb = results(mode, seq, None, True) if has_tagonly else (a, b)
    for ti, t in enumerate(TXNS):
        exp = set()
        nmatch = 0
        for pos, i in enumerate(seq):
            if tr[pos][ti]:
                exp |= rt[pos][ti]
                if RULES[i].get("tags"):
                    nmatch += 1
                if not RULES[i].get("category"):
                    nontrivial = True
        if nmatch >= 2:
            nontrivial = True
        outcomes.add(",".join(sorted(exp)))
        for ep, res, neutral in (("engine", a, na), ("normalize", b, nb)):
            evals += 1
            got = set(res[ti]["tags"])
            sub = {"entry": ep, "mode": MODES[mode], "txn": t}
            if got != exp:
                viol.append({"kind": "tags-not-union", "detail": {**sub, "expected": sorted(exp), "got": sorted(got),
                                                                  "true_rules": [RULES[i]["name"] for pos, i in enumerate(seq) if tr[pos][ti]]}})
            if has_tagonly:
                g = (res[ti]["merchant"], res[ti]["category"], res[ti]["subcategory"])
                n = (neutral[ti]["merchant"], neutral[ti]["category"], neutral[ti]["subcategory"])
                if g != n:
                    viol.append({"kind": "tag-only-rule-changes-classification", "detail": {**sub, "with_tag_only_rules": g, "without": n}})
    return {"evals": evals, "nontrivial": 1 if nontrivial else 0, "outcomes": sorted(outcomes)[:6], "violations": viol[:40],
            "sample_repr": {"mode": MODES[mode], "file": _text(seq)}}


@functools.lru_cache(maxsize=20000)
def csv_results(seq, drop_tagonly=False):
    from tally.merchant_engine import load_csv_as_engine
    rows = [CSVROWS[i] for i in seq if not (drop_tagonly and not CSVROWS[i]["category"])]
    path = R.write_scratch("merchant_categories.csv", R.render_csv(rows))
    rules, transforms = R.load_path(path)
    b = [R.normalize_result(rules, transforms, t) for t in TXNS]
    H.reset_state()
    engs = []
    for m in MODES:
        try:
            eng = load_csv_as_engine(path, match_mode=m)
            engs.append([R.engine_result(eng, t) for t in TXNS])
        except Exception as e:  # noqa
            engs.append(f"{type(e).__name__}: {e}")
    H.reset_state()
    return b, engs


@functools.lru_cache(maxsize=None)
def csv_truth(i):
    return [R.csv_row_truth(CSVROWS[i]["pattern"], t) for t in TXNS]


def check_csv(case):
    seq = tuple(case["rows"])
    b, engs = csv_results(seq)
    has_tagonly = any(not CSVROWS[i]["category"] for i in seq)
    nb, nengs = csv_results(seq, True) if has_tagonly else (b, engs)
    tr = [csv_truth(i) for i in seq]
    viol, outcomes, nontrivial, evals = [], set(), False, 0
    for ti, t in enumerate(TXNS):
        exp = set()
        n = 0
        for pos, i in enumerate(seq):
            if tr[pos][ti]:
                tg = csv_tags(i, t)
                exp |= tg
                n += 1 if tg else 0
                if not CSVROWS[i]["category"]:
                    nontrivial = True
        if n >= 2:
            nontrivial = True
        outcomes.add(",".join(sorted(exp)))
        views = [("normalize", b, nb)] + [(f"csv-engine/{MODES[m]}", engs[m], nengs[m]) for m in range(2)]
        for ep, res, neutral in views:
            if isinstance(res, str):
                viol.append({"kind": "csv-engine-load-failed", "detail": res})
                continue
            evals += 1
            got = set(res[ti]["tags"])
            sub = {"entry": ep, "txn": t}
            if got != exp:
                viol.append({"kind": "tags-not-union", "detail": {**sub, "expected": sorted(exp), "got": sorted(got)}})
            if has_tagonly and not isinstance(neutral, str):
                g = (res[ti]["merchant"], res[ti]["category"], res[ti]["subcategory"])
                nn = (neutral[ti]["merchant"], neutral[ti]["category"], neutral[ti]["subcategory"])
                if g != nn:
                    viol.append({"kind": "tag-only-rule-changes-classification", "detail": {**sub, "with_tag_only_rows": g, "without": nn}})
    return {"evals": evals, "nontrivial": 1 if nontrivial else 0, "outcomes": sorted(outcomes)[:6], "violations": viol[:40],
            "sample_repr": {"csv": R.render_csv([CSVROWS[i] for i in seq])}}


def check_case(case):
    return check_rules(case) if case["fmt"] == "rules" else check_csv(case)
