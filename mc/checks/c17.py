"""C17 - rule files are read by structure alone; malformed ones are rejected, not trimmed.

Part "layout" (explicit-state search): for every seed file (merchants: 4 preambles x every sequence of <= 2
sections over 6 section shapes; views: 2 preambles x every sequence of <= 2 sections over 4 shapes) a
breadth-first search over layout-preserving edits (insert comment / blank line at any position, trailing
blanks, re-indent a property line, swap adjacent distinct-key property lines, CRLF; merchants also key letter
case and indented headers), de-duplicated by text.  Invariant in every reached state: the real loader
returns exactly the seed's structure.
Part "corrupt": every single-line deletion, every deletion of a structural character, unknown keys, empty
or malformed let/field/priority/match/filter values and five kinds of invalid expression, on every seed;
a strict structural reader (mc/ref/rulesfile.py) decides well-formed-with-reading / malformed / ambiguous;
the real loader must return that reading or raise its parse error naming the offending line or its header.
Part "cli": budgets whose rules or views file is corrupt, through `tally up` and `tally diag` in forked
processes: the error must be shown (file or line named) and `up` must not behave as if there were no rules.
"""
import itertools
import os
import re
import shutil
from collections import deque

from mc.core import harness as H
from mc.core import proc
from mc.checks import rules_common as R
from mc.ref import rulesfile as RF

PROPERTY = "C17"
LEVEL = "model_checking"
RULE = ("layout graph: states = distinct file texts reachable from a seed by <= D layout edits (D=2 quick; thorough adds D=3 for one-section seeds), "
        "transitions = edits, every state parsed by the real loader and compared with the seed structure; corruptions: every single-point corruption "
        "of every seed, judged by a strict structural reader; cli: 8 corruption kinds x 3 commands in forked processes. "
        "evaluations counts loader executions over all three parts; non-trivial = states/corruptions whose text differs from the seed")
ASSUMPTIONS = ["corrupted texts that a strict structural reading finds ambiguous (duplicate single-valued key in one section) are not judged",
               "an invalid expression is: unbalanced parenthesis, **, //, a list literal, a lambda call (outside the documented language)",
               "error location: the reported line must be the offending line or the header of its section"]

# ------------------------------------------------------------------------------------------------ seeds
M_SECTIONS = [
    [("h", "Plain"), ("match", 'contains("NETFLIX")'), ("category", "Subs")],
    [("h", "Full One"), ("match", 'contains("UBER") and amount > 5'), ("category", "Transport"), ("subcategory", "Ride"),
     ("merchant", "Uber Inc"), ("tags", "a, B"), ("priority", "70")],
    [("h", "WithLet"), ("let", "m = extract(\"(\\\\d+)\")"), ("let", "n = m"), ("match", 'n != ""'), ("category", "Numbered"),
     ("field", "num = n")],
    [("h", "TagOnly"), ("match", 'field.type == "X"'), ("tags", "{extract(\"(\\\\d+)\")}, kid's, school")],
    [("h", "Colon: Name"), ("match", 'contains("A:B") and amount == 5'), ("category", "Food: Drink #1"), ("subcategory", "Sub # 2"),
     ("tags", "x, #y, z #w")],
    [("h", "Src"), ("match", 'source == "Amex" or regex("AM(EX|AZON)")'), ("subcategory", "OnlySub"), ("tags", "t1")],
    # a let name bound twice, the second binding reading the first: both lines are validated, both are kept in order
    [("h", "Rebind"), ("let", "mid = amount > 10"), ("let", "mid = mid and amount < 5000"), ("match", "mid"), ("category", "Mid")],
    # values holding characters that str.splitlines() (but not a line-oriented reader) treats as line ends
    [("h", "Sep\u2028Name"), ("match", 'contains("AB\x0cCD") or contains("X")'), ("category", "Cat\x0bVT"), ("subcategory", "Sub\x85NEL"), ("tags", "t\u2029p, q")],
]
M_PREAMBLES = [
    [],
    [("var", "big = amount > 100")],
    [("tr", 'field.description = regex_replace(field.description, "^SQ \\\\*", "")')],
    [("var", 'label = "#notacomment"'), ("tr", "field.memo = uppercase(field.memo)"), ("var", "big = amount > 100")],
]
V_SECTIONS = [
    [("h", "All"), ("filter", "true")],
    [("h", "Food View"), ("description", "Everything: food"), ("filter", 'category == "Food" and months >= 2')],
    [("h", "Local"), ("var", "floor = 50"), ("var", "big = total > floor"), ("filter", "big")],
    [("h", "Late Desc"), ("filter", "sum(payments) > threshold"), ("description", "after filter")],
]
V_PREAMBLES = [[], [("var", "threshold = 100"), ("var", "cvv = cv")]]


def seeds(fmt):
    secs, pres = (M_SECTIONS, M_PREAMBLES) if fmt == "m" else (V_SECTIONS, V_PREAMBLES)
    out = []
    for p in range(len(pres)):
        for n in (1, 2):
            for seq in itertools.permutations(range(len(secs)), n):
                out.append((p, seq))
    return out


def seed_lines(fmt, p, seq):
    secs, pres = (M_SECTIONS, M_PREAMBLES) if fmt == "m" else (V_SECTIONS, V_PREAMBLES)
    lines = []
    for kind, val in pres[p]:
        lines.append(val)
    for si in seq:
        if lines:
            lines.append("")
        for kind, val in secs[si]:
            if kind == "h":
                lines.append(f"[{val}]")
            elif kind == "var":
                lines.append(val)
            else:
                lines.append(f"{kind}: {val}")
    return lines


def expected_reading(fmt, p, seq):
    """The structure of the seed, written down directly (not via any parser)."""
    secs, pres = (M_SECTIONS, M_PREAMBLES) if fmt == "m" else (V_SECTIONS, V_PREAMBLES)
    if fmt == "m":
        variables, transforms, rules = {}, [], []
        for kind, val in pres[p]:
            lhs, rhs = [x.strip() for x in val.split("=", 1)]
            if kind == "var":
                variables[lhs.lower()] = rhs
            else:
                transforms.append((lhs, rhs))
        for si in seq:
            r = {"name": None, "match": None, "category": "", "subcategory": "", "merchant": None, "tags": [], "priority": 50, "let": [], "field": {}}
            for kind, val in secs[si]:
                if kind == "h":
                    r["name"] = val
                elif kind == "let":
                    a, b = [x.strip() for x in val.split("=", 1)]
                    r["let"].append((a.lower(), b))
                elif kind == "field":
                    a, b = [x.strip() for x in val.split("=", 1)]
                    r["field"][a.lower()] = b
                elif kind == "tags":
                    r["tags"] = RF.split_tags(val)
                elif kind == "priority":
                    r["priority"] = int(val)
                else:
                    r[kind] = val
            r["merchant"] = r["merchant"] or r["name"]
            rules.append(r)
        return {"variables": variables, "transforms": transforms, "rules": rules}
    gv, sections = {}, []
    for kind, val in pres[p]:
        a, b = [x.strip() for x in val.split("=", 1)]
        gv[a] = b
    for si in seq:
        s = {"name": None, "filter": None, "description": None, "variables": {}}
        for kind, val in secs[si]:
            if kind == "h":
                s["name"] = val
            elif kind == "var":
                a, b = [x.strip() for x in val.split("=", 1)]
                s["variables"][a] = b
            else:
                s[kind] = val
        sections.append(s)
    return {"variables": gv, "sections": sections}


def normalise_strict(fmt, reading):
    """Bring a strict-reader reading into the same shape as expected_reading / real_reading."""
    if fmt == "m":
        rules = []
        for r in reading["rules"]:
            rules.append({"name": r["name"], "match": r["match"], "category": r.get("category", ""), "subcategory": r.get("subcategory", ""),
                          "merchant": r.get("merchant") or r["name"], "tags": sorted(r.get("tags", [])), "priority": r.get("priority", 50),
                          "let": list(r["let"]), "field": dict(r["field"])})
        return {"variables": reading["variables"], "transforms": list(reading["transforms"]), "rules": rules}
    return {"variables": reading["variables"],
            "sections": [{"name": s["name"], "filter": s["filter"], "description": s.get("description"), "variables": dict(s["variables"])}
                         for s in reading["sections"]]}


def real_reading(fmt, text):
    """Run the real loader. Returns ("ok", reading) or ("error", line_number, message) or ("crash", repr)."""
    if fmt == "m":
        from tally.merchant_engine import parse_merchants, MerchantParseError
        try:
            eng = parse_merchants(text)
        except MerchantParseError as e:
            return ("error", getattr(e, "line_number", 0), str(e))
        except Exception as e:  # noqa
            return ("crash", f"{type(e).__name__}: {e}")
        rules = [{"name": r.name, "match": r.match_expr, "category": r.category, "subcategory": r.subcategory, "merchant": r.merchant,
                  "tags": sorted(r.tags), "priority": r.priority, "let": [tuple(x) for x in r.let_bindings], "field": dict(r.fields)}
                 for r in eng.rules]
        return ("ok", {"variables": dict(eng.variables), "transforms": [tuple(t) for t in eng.transforms], "rules": rules})
    from tally.section_engine import parse_sections, SectionParseError
    try:
        cfg = parse_sections(text)
    except SectionParseError as e:
        return ("error", getattr(e, "line_number", 0), str(e))
    except Exception as e:  # noqa
        return ("crash", f"{type(e).__name__}: {e}")
    return ("ok", {"variables": dict(cfg.global_variables),
                   "sections": [{"name": s.name, "filter": s.filter_expr, "description": s.description, "variables": dict(s.variables)}
                                for s in cfg.sections]})


# ------------------------------------------------------------------------------------------------ layout edits
M_KEYS = ("match", "category", "subcategory", "merchant", "tags", "priority", "let", "field")


def line_kind(fmt, line):
    s = line.strip()
    if not s:
        return "blank"
    if s.startswith("#"):
        return "comment"
    if s.startswith("[") and s.rstrip().endswith("]"):
        return "header"
    if fmt == "m":
        if ":" in s and s.split(":", 1)[0].strip().lower() in M_KEYS:
            return "prop:" + s.split(":", 1)[0].strip().lower()
        return "assign"
    if re.match(r"^filter:", s):
        return "prop:filter"
    if re.match(r"^description:", s):
        return "prop:description"
    return "assign"


def layout_edits(fmt, text):
    """All single layout-preserving edits of a text (as new texts with a label)."""
    crlf = "\r\n" in text
    lines = text.replace("\r\n", "\n").split("\n")
    out = []

    def emit(label, new_lines):
        t = "\n".join(new_lines)
        out.append((label, t.replace("\n", "\r\n") if crlf else t))

    kinds = [line_kind(fmt, l) for l in lines]
    for i in range(len(lines) + 1):
        emit(f"comment@{i}", lines[:i] + ["# note: x = 1"] + lines[i:])
        emit(f"icomment@{i}", lines[:i] + ["   # [NotAHeader]"] + lines[i:])
        if i % 2 == 0:
            # one comment line whose text holds Unicode / C0 "line boundary" characters followed by text that would be a live
            # line of the format: only \n (or \r\n) ends a line
            emit(f"ucomment@{i}", lines[:i] + ["# was:\u2028category: Hijack\x0cfilter: false\x85priority: 1\x0bmatch: true\u2029[Ghost]\x1csubcategory: G"] + lines[i:])
        emit(f"blank@{i}", lines[:i] + ["   "] + lines[i:])
    in_section = False
    for i, (l, k) in enumerate(zip(lines, kinds)):
        if k == "header":
            in_section = True
        if k in ("blank", "comment"):
            continue
        emit(f"trail@{i}", lines[:i] + [l + "  \t"] + lines[i + 1:])
        if k.startswith("prop:") or (k == "assign" and in_section and fmt == "v"):
            emit(f"indent@{i}", lines[:i] + ["    " + l] + lines[i + 1:])
            emit(f"tab@{i}", lines[:i] + ["\t" + l] + lines[i + 1:])
        if fmt == "m" and k.startswith("prop:"):
            key, rest = l.split(":", 1)
            emit(f"keycase@{i}", lines[:i] + [key.upper() + ":" + rest] + lines[i + 1:])
        if fmt == "m" and k == "header" and not l.startswith(" "):
            emit(f"hindent@{i}", lines[:i] + ["  " + l] + lines[i + 1:])
    # swap adjacent property lines of one section whose keys differ
    for i in range(len(lines) - 1):
        a, b = kinds[i], kinds[i + 1]

        def cls(k):
            if k.startswith("prop:"):
                return k[5:]
            if k == "assign":
                return "var"
            return None
        ca, cb = cls(a), cls(b)
        if ca and cb and ca != cb and any(kinds[j] == "header" for j in range(i)):
            emit(f"swap@{i}", lines[:i] + [lines[i + 1], lines[i]] + lines[i + 2:])
    if not crlf:
        out.append(("crlf", text.replace("\n", "\r\n")))
    return out


def check_layout(case):
    fmt, p, seq, depth = case["fmt"], case["preamble"], tuple(case["sections"]), case["depth"]
    if case.get("text") is not None:          # replay of one reached state
        got = real_reading(fmt, case["text"])
        exp = expected_reading(fmt, p, seq)
        v = [] if got == ("ok", exp) else [{"kind": "layout-edit-changes-reading", "detail": {"expected": exp, "got": got}}]
        return {"evals": 1, "nontrivial": 1, "violations": v, "outcomes": []}
    exp = expected_reading(fmt, p, seq)
    start = "\n".join(seed_lines(fmt, p, seq)) + "\n"
    seen = {start}
    frontier = deque([(start, 0, ())])
    states = transitions = 0
    viol = []
    maxd = 0
    while frontier:
        text, d, path = frontier.popleft()
        states += 1
        maxd = max(maxd, d)
        got = real_reading(fmt, text)
        if got != ("ok", exp):
            if len(viol) < 6:
                viol.append({"kind": "layout-edit-changes-reading",
                             "case": {"part": "layout", "fmt": fmt, "preamble": p, "sections": list(seq), "depth": depth, "text": text},
                             "detail": {"edits": list(path), "expected": exp, "got": got}})
            continue
        if d >= depth:
            continue
        for label, t2 in layout_edits(fmt, text):
            transitions += 1
            if t2 not in seen:
                seen.add(t2)
                frontier.append((t2, d + 1, path + (label,)))
    return {"evals": states, "nontrivial": states - 1, "states": states, "transitions": transitions, "depth": maxd,
            "outcomes": [f"{fmt}:{len(exp.get('rules', exp.get('sections')))}sections"], "violations": viol,
            "sample_repr": {"seed_text": start, "edit_depth": depth, "states": states}}


# ------------------------------------------------------------------------------------------------ corruptions
BAD_EXPRS = ['contains("X"', "amount ** 2 > 1", 'description in ["A", "B"]', "(lambda: 1)()", "amount // 2 == 1"]
BAD_EXPRS_V = ['(total > 1', "total ** 2 > 1", 'category in ["A", "B"]', "(lambda: 1)()", "total // 2 == 1"]


def corruptions(fmt, lines):
    """Yield (label, new_text, forced) where forced is None (ask the strict reader) or ("malformed", line_no)."""
    kinds = [line_kind(fmt, l) for l in lines]

    def text_of(ls):
        return "\n".join(ls) + "\n"

    for i in range(len(lines)):
        yield f"delete-line@{i + 1}", text_of(lines[:i] + lines[i + 1:]), None
    for i, (l, k) in enumerate(zip(lines, kinds)):
        n = i + 1
        if k == "header":
            for ch in ("[", "]"):
                j = l.index(ch)
                yield f"delete-char{ch}@{n}", text_of(lines[:i] + [l[:j] + l[j + 1:]] + lines[i + 1:]), None
        if k.startswith("prop:"):
            key = k[5:]
            j = l.index(":")
            yield f"delete-colon@{n}", text_of(lines[:i] + [l[:j] + l[j + 1:]] + lines[i + 1:]), None
            for c in range(len(key)):
                yield f"delete-keychar{c}@{n}", text_of(lines[:i] + [l[:c] + l[c + 1:]] + lines[i + 1:]), None
            yield f"unknown-key@{n}", text_of(lines[:i] + ["bogus" + l[j:]] + lines[i + 1:]), None
            if key in ("let", "field", "priority", "match", "filter"):
                yield f"empty-value@{n}", text_of(lines[:i] + [l[:j + 1]] + lines[i + 1:]), ("malformed", n)
            if key in ("let", "field"):
                e = l.index("=")
                yield f"delete-eq@{n}", text_of(lines[:i] + [l[:e] + l[e + 1:]] + lines[i + 1:]), ("malformed", n)
                yield f"no-name@{n}", text_of(lines[:i] + [l[:j + 1] + " = " + l[e + 1:]] + lines[i + 1:]), ("malformed", n)
                for b in BAD_EXPRS:
                    yield f"bad-expr@{n}", text_of(lines[:i] + [l[:e + 1] + " " + b] + lines[i + 1:]), ("malformed", n)
            if key == "priority":
                for bad in ("high", "70x", "7 0", "70.5", "70,", "x70", "0x46", "7e1"):
                    yield f"bad-priority@{n}", text_of(lines[:i] + [l[:j + 1] + " " + bad] + lines[i + 1:]), ("malformed", n)
            if key in ("match", "filter"):
                for b in (BAD_EXPRS if fmt == "m" else BAD_EXPRS_V):
                    yield f"bad-expr@{n}", text_of(lines[:i] + [l[:j + 1] + " " + b] + lines[i + 1:]), ("malformed", n)
        if k == "assign":
            e = l.index("=")
            yield f"delete-eq@{n}", text_of(lines[:i] + [l[:e] + l[e + 1:]] + lines[i + 1:]), None
            for b in (BAD_EXPRS if fmt == "m" else BAD_EXPRS_V):
                yield f"bad-expr@{n}", text_of(lines[:i] + [l[:e + 1] + " " + b] + lines[i + 1:]), ("malformed", n)


def header_of(lines, n):
    for i in range(n - 1, -1, -1):
        s = lines[i].strip()
        if s.startswith("[") and s.endswith("]"):
            return i + 1
    return None


def judge(fmt, text, forced, label):
    """Returns a violation dict or None."""
    if forced is None:
        verdict = RF.read_merchants(text) if fmt == "m" else RF.read_views(text)
    else:
        new_lines = text.split("\n")
        verdict = ("malformed", forced[1], header_of(new_lines, forced[1] - 1))
    got = real_reading(fmt, text)
    if got[0] == "crash":
        return {"kind": "loader-crashes", "detail": {"corruption": label, "text": text, "got": got}}
    if verdict[0] == "ambiguous":
        return None
    if verdict[0] == "ok":
        exp = normalise_strict(fmt, verdict[1])
        if got != ("ok", exp):
            return {"kind": "well-formed-file-misread", "detail": {"corruption": label, "text": text, "expected": exp, "got": got}}
        return None
    _, line, hdr = verdict
    if got[0] == "ok":
        return {"kind": "malformed-file-accepted", "detail": {"corruption": label, "text": text, "offending_line": line,
                                                              "loaded_as": got[1]}}
    allowed = {line} | ({hdr} if hdr else set())
    if got[1] not in allowed:
        return {"kind": "error-names-wrong-line", "detail": {"corruption": label, "text": text, "offending_line": line, "section_header": hdr,
                                                             "reported_line": got[1], "message": got[2]}}
    return None


def check_corrupt(case):
    fmt, p, seq = case["fmt"], case["preamble"], tuple(case["sections"])
    if case.get("text") is not None:
        v = judge(fmt, case["text"], tuple(case["forced"]) if case.get("forced") else None, case.get("label"))
        return {"evals": 1, "nontrivial": 1, "violations": [v] if v else [], "outcomes": []}
    lines = seed_lines(fmt, p, seq)
    viol, evals = [], 0
    outcomes = set()
    for label, text, forced in corruptions(fmt, lines):
        evals += 1
        v = judge(fmt, text, forced, label)
        outcomes.add(label.split("@")[0] + ("!" if v else ""))
        if v and len(viol) < 10:
            v["case"] = {"part": "corrupt", "fmt": fmt, "preamble": p, "sections": list(seq), "text": text,
                         "forced": list(forced) if forced else None, "label": label}
            viol.append(v)
    return {"evals": evals, "nontrivial": evals, "outcomes": sorted(outcomes), "violations": viol,
            "sample_repr": {"seed_text": "\n".join(lines), "corruptions": evals}}


# ------------------------------------------------------------------------------------------------ command level
GOOD_RULES = '[Netflix]\nmatch: contains("NETFLIX")\ncategory: Subs\nsubcategory: Streaming\n\n[Coffee]\nmatch: contains("COFFEE")\ncategory: Food\n'
GOOD_VIEWS = '[All]\nfilter: true\n\n[Food]\nfilter: category == "Food"\n'
CLI_CORRUPTIONS = {
    "rules-missing-match": ("rules", GOOD_RULES.replace('match: contains("COFFEE")\n', "")),
    "rules-unknown-property": ("rules", GOOD_RULES.replace("subcategory: Streaming", "subcat: Streaming")),
    "rules-bad-expression": ("rules", GOOD_RULES.replace('contains("COFFEE")', 'contains("COFFEE"')),
    "rules-unsafe-expression": ("rules", GOOD_RULES.replace('contains("COFFEE")', "amount ** 2 > 1")),
    "rules-lost-bracket": ("rules", GOOD_RULES.replace("[Netflix]", "Netflix]")),
    "rules-bad-priority": ("rules", GOOD_RULES.replace("category: Food", "category: Food\npriority: high")),
    "views-missing-filter": ("views", GOOD_VIEWS.replace("filter: true\n", "")),
    "views-bad-expression": ("views", GOOD_VIEWS.replace('category == "Food"', 'category == "Food')),
}
CLI_COMMANDS = [["up", "--format", "json"], ["up", "--summary"], ["up", "-q", "--format", "json"], ["up", "--quiet"], ["diag"],
                # the other commands that classify with the rules file (run on rules corruptions only: they need not read the views file)
                ["discover"], ["discover", "--format", "json"], ["explain"], ["explain", "Netflix"], ["explain", "NETFLIX.COM 1", "--amount", "15.99"]]
RULES_ONLY_COMMANDS = {"discover", "explain"}


def make_budget(base, rules_text, views_text, legacy=0):
    shutil.rmtree(base, ignore_errors=True)
    os.makedirs(os.path.join(base, "config"))
    os.makedirs(os.path.join(base, "data"))
    with open(os.path.join(base, "data", "s.csv"), "w") as f:
        f.write("Date,Description,Amount\n01/10/2025,NETFLIX.COM,15.99\n01/11/2025,COFFEE SHOP,4.50\n02/11/2025,COFFEE SHOP,5.50\n")
    extra = ""
    for k in range(legacy):
        # further sources declared with the deprecated `type:` key (each makes tally emit a deprecation warning of its own)
        with open(os.path.join(base, "data", f"old{k}.csv"), "w") as f:
            f.write("Date,Description,Amount\n03/1%d/2025,COFFEE SHOP,3.50\n" % k)
        extra += f"  - name: Old{k}\n    file: data/old{k}.csv\n    type: amex\n"
    with open(os.path.join(base, "config", "settings.yaml"), "w") as f:
        f.write('year: 2025\nmerchants_file: config/merchants.rules\nviews_file: config/views.rules\ndata_sources:\n  - name: S\n'
                '    file: data/s.csv\n    format: "{date:%m/%d/%Y},{description},{amount}"\n' + extra)
    with open(os.path.join(base, "config", "merchants.rules"), "w") as f:
        f.write(rules_text)
    with open(os.path.join(base, "config", "views.rules"), "w") as f:
        f.write(views_text)


def check_cli(case):
    which, text = CLI_CORRUPTIONS[case["corruption"]]
    cmd = CLI_COMMANDS[case["command"]]
    base = os.path.join(R.scratch(), "c17cli")
    make_budget(base, text if which == "rules" else GOOD_RULES, text if which == "views" else GOOD_VIEWS, legacy=case.get("legacy", 0))
    r = proc.run_cli(cmd, cwd=base)
    out = r["stdout"] + "\n" + r["stderr"]
    fname = "merchants.rules" if which == "rules" else "views.rules"
    viol = []
    # "reported": the user can tell something is wrong with that file - the file is named next to a problem word, a line number is
    # given, or the command refuses (non-zero exit) with a message on stderr; the wording itself is not constrained
    names_it = ((fname in out and re.search(r"(?i)error|invalid|fail|cannot|can't|could not|unable|problem|not valid|malformed|unexpected|syntax|warning|skipp|ignor|broken|corrupt", out))
                or re.search(r"(?i)\b(line|row)\s*#?\s*\d+", out) or (r["exit"] not in (0, 70) and r["stderr"].strip()))
    if "Traceback (most recent call last)" in out or r["exit"] == 70:
        viol.append({"kind": "command-crashes-on-corrupt-file", "detail": {"command": cmd, "exit": r["exit"], "output_tail": out[-600:]}})
    elif not names_it:
        viol.append({"kind": "corrupt-file-not-reported", "detail": {"command": cmd, "file": fname, "exit": r["exit"], "output_tail": out[-700:]}})
    if which == "rules" and cmd[0] in ("up", "discover", "explain") and r["exit"] == 0:
        make_budget(base, "# no rules\n", GOOD_VIEWS)
        r0 = proc.run_cli(cmd, cwd=base)
        if r0["exit"] == 0 and r0["stdout"] == r["stdout"]:
            viol.append({"kind": "corrupt-rules-treated-as-no-rules", "detail": {"command": cmd, "stdout_tail": r["stdout"][-400:]}})
    shutil.rmtree(base, ignore_errors=True)
    return {"evals": 1, "nontrivial": 1, "outcomes": [f"exit{r['exit']}"], "violations": viol,
            "sample_repr": {"corruption": case["corruption"], "command": cmd}}


# ------------------------------------------------------------------------------------------------ plumbing
def bounds(tier):
    return {"layout_depth_all_seeds": 2, "layout_depth_one_section_seeds": 2 if tier == "quick" else 3,
            "merchant_seeds": len(seeds("m")), "views_seeds": len(seeds("v")), "cli_cases": len(CLI_CORRUPTIONS) * len(CLI_COMMANDS)}


def gen_cases(tier):
    for fmt in ("m", "v"):
        for p, seq in seeds(fmt):
            d = 3 if (tier == "thorough" and len(seq) == 1) else 2
            yield {"part": "layout", "fmt": fmt, "preamble": p, "sections": list(seq), "depth": d}
    for fmt in ("m", "v"):
        for p, seq in seeds(fmt):
            yield {"part": "corrupt", "fmt": fmt, "preamble": p, "sections": list(seq)}
    for fmt in ("m", "v"):
        for p, seq in seeds(fmt):
            yield {"part": "file", "fmt": fmt, "preamble": p, "sections": list(seq)}
    for c in CLI_CORRUPTIONS:
        for k in range(len(CLI_COMMANDS)):
            if CLI_COMMANDS[k][0] in RULES_ONLY_COMMANDS and CLI_CORRUPTIONS[c][0] != "rules":
                continue
            yield {"part": "cli", "corruption": c, "command": k}
            if CLI_COMMANDS[k][0] in ("up", "diag"):
                # the same budget with two more sources that produce warnings of their own (the file's error must not get lost among them)
                yield {"part": "cli", "corruption": c, "command": k, "legacy": 2}


def check_file(case):
    """The seed file written to disk in four encodings of the same text (LF / CRLF, with / without a UTF-8 byte-order mark) and read
    through the file loaders must give the reading of the text itself."""
    from pathlib import Path
    fmt, p, seq = case["fmt"], case["preamble"], tuple(case["sections"])
    exp = expected_reading(fmt, p, seq)
    text = "\n".join(seed_lines(fmt, p, seq)) + "\n"
    viol, evals = [], 0
    for label, data in (("lf", text.encode("utf-8")), ("bom+lf", b"\xef\xbb\xbf" + text.encode("utf-8")),
                        ("crlf", text.replace("\n", "\r\n").encode("utf-8")), ("bom+crlf", b"\xef\xbb\xbf" + text.replace("\n", "\r\n").encode("utf-8"))):
        evals += 1
        path = R.write_scratch("c17file.rules", "")
        with open(path, "wb") as f:
            f.write(data)
        try:
            if fmt == "m":
                from tally.merchant_engine import load_merchants_file
                eng = load_merchants_file(Path(path))
                got = ("ok", {"variables": dict(eng.variables), "transforms": [tuple(t) for t in eng.transforms],
                              "rules": [{"name": r.name, "match": r.match_expr, "category": r.category, "subcategory": r.subcategory, "merchant": r.merchant,
                                         "tags": sorted(r.tags), "priority": r.priority, "let": [tuple(x) for x in r.let_bindings], "field": dict(r.fields)}
                                        for r in eng.rules]})
            else:
                from tally.section_engine import load_sections
                cfg = load_sections(path)
                got = ("ok", {"variables": dict(cfg.global_variables),
                              "sections": [{"name": x.name, "filter": x.filter_expr, "description": x.description, "variables": dict(x.variables)} for x in cfg.sections]})
        except Exception as e:  # noqa
            got = ("error", f"{type(e).__name__}: {e}")
        if got != ("ok", exp):
            viol.append({"kind": "file-encoding-changes-reading", "detail": {"encoding": label, "expected": exp, "got": got}})
    return {"evals": evals, "nontrivial": evals, "violations": viol[:4], "outcomes": ["file-ok" if not viol else "file-differs"],
            "sample_repr": {"fmt": fmt, "sections": list(seq)}}


def check_case(case):
    if case["part"] == "file":
        return check_file(case)
    if case["part"] == "layout":
        return check_layout(case)
    if case["part"] == "corrupt":
        return check_corrupt(case)
    return check_cli(case)
