"""C03 - rule expressions are confined: no code execution, I/O or introspection.

Exhaustive over four corpora of expression STRINGS:
  node     one or more smallest instances of every Python expression node class / operator / call shape /
           literal kind, at top level and nested inside every construct the language allows;
  closure  15 receivers (one per kind of value the language can build) x EVERY attribute name in dir() of
           str, dict, list, set, tuple, float, int, bool, date, NoneType, generator, builtin function,
           function, type, code, frame (enumerated at run time) x 6 access shapes;
  payload  classic sandbox-escape payloads and all ordered pairs of splices of one into another;
  functions every public name of builtins and of 13 standard modules (incl. everything the evaluator's own imports expose) called
           in 5 shapes, in transaction and view contexts: only the documented function tables may be callable.
Each string is loaded and evaluated on the real code in up to 9 contexts (direct; match, let, field, tag,
top-level variable, transform of a .rules file; view filter and view variable) under a monitor:
  (a) sys.addaudithook: evaluation raises NO audit event, parsing only `compile` of the text itself;
  (b) every produced value / tag / field / transformed description is plain data (no type, function, method,
      module, code, frame; no repr of such an object inside a string);
  (c) transaction, supplemental rows, variables and ast.dump(parsed tree) are unchanged afterwards;
  (d) strings using an undocumented node, attribute or call shape end in rejection or ExpressionError.
"""
import ast
import copy
import datetime as dt
import itertools
import os
import types

from mc.core import harness as H
from mc.core import audit
from mc.checks import rules_common as R
from mc.ref import rulesfile as RF

import warnings
warnings.simplefilter("ignore", SyntaxWarning)     # corpus strings such as '1if' make the compiler chatty on stderr

PROPERTY = "C03"
LEVEL = "exploration"
RULE = ("cases = chunks of expression strings from 3 corpora (node instances x 15 nesting wrappers; 15 receivers x every dir() name of 16 builtin types x 6 "
        "shapes; ~70 escape payloads plus all ordered pair splices in 5 templates), each evaluated in up to 9 load/evaluation contexts; plus the residue family (13 name-binding expressions x 10 readers x 2 entry points). "
        "non-trivial = (string, context) pairs that parse as Python (i.e. reach the whitelist or the evaluator); strings are de-duplicated")
ASSUMPTIONS = ["monitor = CPython audit events + recursive value-kind walk + before/after deep equality; strings outside the three corpora are not covered",
               "bytes / complex / Ellipsis literals are inert data; generator objects are allowed as values (documented next(gen, default)) but their repr inside a produced string is not",
               "whether an ill-typed use of a DOCUMENTED function fails cleanly is C08's obligation"]

# ------------------------------------------------------------------------------------------------ evaluation environment
TXN = {"description": "NETFLIX 123", "amount": 50.0, "date": dt.date(2025, 1, 15), "field": {"memo": "REF 77", "type": "WIRE"},
       "source": "Amex", "location": "Seattle"}
ORDERS = {"orders": [{"item": "Book", "amount": 99.75, "date": dt.date(2025, 1, 15)}, {"item": "Pen", "amount": 0.25, "date": dt.date(2025, 2, 1)}],
          # rows of different widths (a short CSV line): reading the missing column must not add it
          "ragged": [{"item": "Lamp", "amount": 5.0, "note": "gift"}, {"item": "Rug", "amount": 7.5}]}
VARS = {"threshold": 10, "label": "x"}

# ------------------------------------------------------------------------------------------------ corpus 1: nodes
A = "description"
BASE_OK = [  # documented constructs (may evaluate)
    "true and false", "amount > 1 or false", "not true", "-amount", "amount + 1", "amount - 1", "amount * 2", "amount / 0", "amount % 0",
    "amount == 50", "amount != 50", "amount < 1", "amount <= 1", "amount > 1", "amount >= 1", '"NET" in description', '"x" not in description',
    "1 < amount < 100", 'contains("NETFLIX")', 'regex("N.T")', "abs(amount)", "round(amount)", 'description.lower()', 'description.replace("N", "M")',
    "1 if true else 2", "1", "1.5", '"s"', "None", "True", "description", "amount", "date", "month", "source", "field.memo", "txn.amount", "txn.date",
    "[r.item for r in orders]", "[r for r in orders if r.amount > 1]", "(r.item for r in orders)", "any(r.amount > 1 for r in orders)",
    "sum(r.amount for r in orders)", "len(orders)", "orders[0]", "orders[0].item", 'orders[0]["item"]', "next((r for r in orders), None)",
    "(m := amount) and m > 1", 'date >= "2025-01-01"', 'date == "2025-01-15"', '"2025-01-01" <= date', 'extract("(\\\\d+)")', 'exists(field.nope)',
    'sum(by("month"))', 'max(by("day"))', 'count(by("week"))', 'avg(by("year"))', 'by("month")', 'max(sum(by("month")))', "months", "total", "cv", "payments",
    "count(payments)", "category", "subcategory", "merchant", "tags", 'period("month")', "stddev(payments)", "max_val", "total / months",
    "[r.note for r in ragged]", "ragged[1].note", 'any(r.note == "" for r in ragged)', "ragged[0].note", 'ragged[1]["note"]', "len(ragged[1])",
    "max(1, 2)", "min(r.amount for r in orders)", "[r async for r in orders]", "[(x.item for x in orders) for r in orders]", 'split(" ", 0)', "substring(0, 3)", "trim()", 'b"bytes"', "1j", "...",
]
BASE_BAD = [  # constructs outside the documented language: must be rejected or fail as an expression error
    "amount ** 2", "amount // 2", "amount @ 2", "1 << 2", "8 >> 1", "1 | 2", "1 ^ 2", "1 & 2", "+amount", "~1", "amount is None", "amount is not None",
    "lambda: 1", "(lambda x: x)(1)", "(lambda: description)()", "{}", '{"a": 1}', "{**field}", "{1, 2}", "{r.item for r in orders}",
    "{r.item: 1 for r in orders}", "await description", "(yield)", "(yield 1)", "(yield from orders)", 'f"{description}"', 'f"{amount!r:>{10}}"',
    "[1, 2]", "(1, 2)", "()", "[*orders]", "abs(*orders)", "abs(x=1)", "abs(**field)", "abs(1)(2)", "orders[0:1]", "orders[::2]",
    "orders[0, 1]", "description[1:2]", "[a for a, b in orders]", "description.__class__", "orders.__class__",
    "field.__class__", "txn.__class__", "abs.__self__", "orders[0].__class__", "description.lower.__self__", "description.format(amount)",
    'description.format_map(field)', 'description.join(["a"])', 'description.encode()', "description.__len__()", "orders.append(1)", "orders.clear()",
    "field.clear()", "orders[0].update(field)", "orders[0].pop(\"item\")", "print(1)", "open(\"/etc/passwd\")", "__import__(\"os\")",
    "eval(\"1\")", "exec(\"1\")", "compile(\"1\", \"x\", \"eval\")", "getattr(description, \"lower\")", "globals()", "locals()", "vars()", "dir()",
    "type(description)", "isinstance(amount, float)", "str(amount)", "int(amount)", "float(1)", "list(orders)", "dict()", "set()", "tuple(orders)",
    "sorted(orders)", "map(abs, orders)", "filter(None, orders)", "zip(orders, orders)", "iter(orders)", "range(3)", "enumerate(orders)", "repr(abs)",
    "format(amount)", "hash(1)", "id(1)", "input()", "breakpoint()", "help()", "exit()", "quit()", "object()", "super()", "memoryview(b\"x\")",
    "bytearray(1)", "chr(65)", "ord(\"A\")", "callable(abs)", "hasattr(1, \"real\")", "setattr(txn, \"x\", 1)", "delattr(txn, \"x\")",
    "nonexistent_name", "txn", "field", "abs", "contains", "len", "orders.nope", "txn.nope", "field.nope",
]
WRAPPERS = ["{X}", "not ({X})", "({X}) and true", "true and ({X})", "({X}) == 1", "1 if ({X}) else 0", "({X}) if true else 0", "abs({X})", "contains({X})",
            "[({X}) for r in orders]", "any(({X}) for r in orders)", "[r for r in orders if ({X})]", "(m := ({X}))", "orders[{X}]", "({X}).lower()"]

# ------------------------------------------------------------------------------------------------ corpus 2: attribute closure
RECEIVERS = ['"s"', "description", "field.memo", "amount", "1", "true", "date", "orders", "orders[0]", "[r for r in orders]", "(r for r in orders)",
             "txn", "field", "abs", "None"]
SHAPES = ["{R}.{a}", "{R}.{a}()", '{R}.{a}("x")', "{R}.{a}.{a}", '{R}["{a}"]', "{R}.{a}[0]"]
DOCUMENTED_ATTRS = {"lower", "upper", "strip", "startswith", "endswith", "replace", "description", "amount", "date", "source", "location", "month", "year",
                    "day", "weekday", "memo", "type", "item"}


def attr_names():
    def gen():
        yield 1

    def fn():
        pass
    import sys
    objs = ["", {}, [], set(), (), 1.5, 1, True, dt.date(2025, 1, 1), None, gen(), abs, fn, type, fn.__code__, sys._getframe()]
    names = set()
    for o in objs:
        names.update(dir(o))
    names.update(DOCUMENTED_ATTRS)
    names.update({"__builtins__", "__globals__", "__subclasses__", "__mro__", "__bases__", "__dict__", "__closure__", "__code__", "__func__", "__wrapped__",
                  "f_back", "f_globals", "f_builtins", "gi_frame", "gi_code", "cr_frame", "tb_frame", "func_globals", "mro", "ctx", "_scope", "variables",
                  "data_sources", "evaluate", "get_function"})
    return sorted(names)


# ------------------------------------------------------------------------------------------------ corpus 3: payloads
PAYLOADS = [
    '__import__("os").system("true")', '().__class__.__bases__[0].__subclasses__()', '"".__class__.__mro__[1].__subclasses__()',
    '[].__class__.__base__.__subclasses__()', 'description.__class__.__base__.__subclasses__()', 'open("/etc/passwd").read()',
    'open("/tmp/c03_pwned", "w")', 'eval("__import__(\'os\')")', 'exec("import os")', 'compile("1", "x", "eval")', 'getattr(description, "__class__")',
    'getattr(abs, "__self__")', "globals()", 'globals()["__builtins__"]', "abs.__self__", "abs.__self__.open", 'abs.__self__.__import__("os")',
    "contains.__self__", "contains.__func__.__globals__", "regex.__globals__", "len.__self__", "round.__self__.eval", 'description.format(0)',
    '"{0.__class__}".format(amount)', '"{0.__class__.__mro__}".format(description)', '"{0.gi_frame.f_globals}".format((c for c in description))',
    'field.memo.format(amount)', '"{x.__class__}".format_map({"x": 1})', "description.format_map(field)", '"%s" % abs', '"%r" % txn', "type(amount)",
    "type(amount)(1)", 'type("X", (), {})', "amount.__class__", "amount.__class__.__base__", "(1).__class__.__bases__", "date.__class__", "date.today()",
    "date.__class__.today()", "date.fromisoformat", "orders.__class__.__mro__", "orders[0].__class__.__init__.__globals__", "orders[0].get",
    'orders[0].get("item")', "orders[0].items()", "orders[0].__getitem__", "(r for r in orders).gi_frame", "(r for r in orders).gi_frame.f_globals",
    "(r for r in orders).gi_frame.f_back", "(r for r in orders).gi_code", "(r for r in orders).send(None)", "(r for r in orders).throw(SystemExit)",
    "[r for r in orders].__class__", "(lambda: 0).__globals__", "(lambda: __import__(\"os\"))()", "breakpoint()", "help()", "exit()", "quit()",
    'input("x")', 'print("x")', "vars()", "locals()", "dir()", "id(abs)", "memoryview(b\"x\")", "object.__subclasses__()", "BaseException.__subclasses__()",
    "[txn := 1, txn]", "(field := orders) and field.memo", "[abs for abs in orders]", "(contains := abs) and contains(1)", "[r for description in orders]",
    "(amount := description) and amount", "ctx", "self", "self.ctx", "ctx.data_sources", "_scope", "node", "__builtins__", "__name__", "__file__", "__loader__",
    "__spec__", "__debug__", "__import__", "NotImplemented", "Ellipsis", "quit", "copyright", "credits", "license",
]
SPLICES = ["({P}) and ({Q})", "({P}) if ({Q}) else ({P})", "[({P}) for r in ({Q})]", "({P})[({Q})]", "abs({P}, {Q})"]

# payloads that only rebind names / shadow primitives and yield plain data: judged by the monitor only
PAYLOAD_OK = {"__debug__", "[txn := 1, txn]", "(field := orders) and field.memo", "[abs for abs in orders]", "(contains := abs) and contains(1)",
              "[r for description in orders]", "(amount := description) and amount"}


def bounds(tier):
    return {"node_strings": len(node_corpus()), "closure_strings": len(RECEIVERS) * len(attr_names()) * len(SHAPES),
            "payload_strings": len(payload_corpus()), "contexts_direct": 1, "contexts_file": 6, "contexts_view": 2,
            "file_contexts_applied_to": "node and payload corpora (quick), all corpora (thorough)"}


def node_corpus():
    out = []
    seen = set()
    for label, base in (("ok", BASE_OK), ("bad", BASE_BAD)):
        for b in base:
            for w in WRAPPERS:
                e = w.replace("{X}", b)
                if e not in seen:
                    seen.add(e)
                    out.append((e, label == "bad"))
    return out


def payload_corpus():
    out, seen = [], set()
    for p in PAYLOADS:
        if p not in seen:
            seen.add(p)
            out.append((p, p not in PAYLOAD_OK))
    # splices are judged by the monitor (a)-(c) only: whether the spliced-in part is evaluated at all depends on
    # short-circuiting and on the iterable being non-empty, so "must end in an error" is not implied for them
    for p, q in itertools.permutations(PAYLOADS, 2):
        for t in SPLICES:
            e = t.replace("{P}", p).replace("{Q}", q)
            if e not in seen:
                seen.add(e)
                out.append((e, False))
    return out


def closure_corpus():
    names = attr_names()
    for r in RECEIVERS:
        for a in names:
            for s in SHAPES:
                e = s.replace("{R}", r).replace("{a}", a)
                yield e, (a not in DOCUMENTED_ATTRS)


VIEW_FUNCS = {"sum", "count", "avg", "max", "min", "stddev", "abs", "round", "by", "period", "max_val", "min_val"}
TXN_FUNCS = {"contains", "regex", "normalized", "anyof", "startswith", "fuzzy", "abs", "round", "extract", "split", "substring", "trim", "regex_replace",
             "uppercase", "lowercase", "strip_prefix", "strip_suffix", "exists", "len", "sum", "any", "all", "next", "min", "max"}


# every documented transaction function applied to a generator expression (first / only argument, second argument): whatever comes back
# must be plain data or an expression error, never the repr of the generator object
BASE_OK += [e for f in sorted(TXN_FUNCS) for e in (f"{f}((r for r in orders))", f"{f}((r.item for r in orders), \"a\")", f"{f}(description, (r.item for r in orders))",
                                                    f"{f}((r.item for r in orders), \"a\", \"b\")")]


# a list result whose LATER element is a generator (the first one is plain): every element is made plain data before it is handed on
BASE_OK += ["[r.item if r.amount > 1 else (x.item for x in orders) for r in orders]", "[(x.item for x in orders) if r.amount > 1 else r.item for r in orders]"]


def context_names():
    """Every attribute name of tally's own evaluation-context and evaluator classes (enumerated at run time), as a bare name and as a
    call: the expression language reads transaction data through a fixed list of names, not through the objects that hold it."""
    from tally import expr_parser as ep
    names = set()
    for cls in (ep.TransactionContext, ep.TransactionEvaluator, ep.ExpressionContext, ep.ExpressionEvaluator):
        names.update(n for n in dir(cls) if not n.startswith("__"))
        names.update(getattr(cls, "__dataclass_fields__", {}).keys())
        names.update(getattr(cls, "__annotations__", {}).keys())
    names.update({"ctx", "self", "variables", "data_sources", "transaction", "evaluator", "context"})
    return sorted(names)


def function_corpus():
    """Every public name of builtins and of the modules the evaluator imports, called as a function (C03: closed function tables)."""
    import builtins, statistics, re as _re, warnings as _w, datetime as _d, typing as _t, math, os, sys, operator, itertools as _it, collections, functools as _f
    names = set()
    for m in (builtins, statistics, _re, _w, _d, _t, math, os, sys, operator, _it, collections, _f, ast):
        names.update(n for n in dir(m) if not n.startswith("_"))
    names.update({"__import__", "__build_class__", "namedtuple", "itemgetter", "groupby", "repeat", "defaultdict", "bisect_left", "Fraction", "Decimal",
                  "getattr", "setattr", "eval", "exec", "compile", "open", "input", "vars", "globals", "locals"})
    out = []
    for n in sorted(names):
        low = n.lower()
        for shape in ("{n}()", '{n}("p", "a b")', "{n}(1)", "{n}(payments)" , "{n}(description)"):
            out.append((shape.replace("{n}", n), low))
    return out


CHUNK = 40

# ---- names bound while evaluating one expression must be gone (and must shadow nothing) in the next evaluation
BINDERS = ["(zz := description)", "(zz := amount) > 0", "[zz for zz in orders]", "any((zz := r.amount) > 0 for r in orders)", "(amount := 5) and amount",
           '(description := "X") and description', "[amount for amount in orders]", "(orders := 1)", "(contains := 1)", "sum(zz.amount for zz in orders)",
           "(month := 13) and (source := 1) and (date := 2)", "[(zz := r) for r in orders][0].item", "(zz := orders) and (field := 1)"]
READERS = [("zz", "error"), ("zz == 5 or zz != 5", "error"), ("amount", 7.5), ("description", "OTHER SHOP"), ("len(orders)", "N_ORDERS"), ('contains("OTHER")', True),
           ("month", 2), ("source", "chase"), ("field.memo", "m2"), ('date == "2025-02-03"', True)]
TXN_B = {"description": "OTHER SHOP", "amount": 7.5, "date": dt.date(2025, 2, 3), "field": {"memo": "m2"}, "source": "chase"}


def gen_cases(tier):
    fc = function_corpus()
    for i in range(0, len(fc), CHUNK):
        yield {"corpus": "functions", "contexts": "functions", "items": [[e, low] for e, low in fc[i:i + CHUNK]]}
    yield {"corpus": "residue", "contexts": "residue", "items": [[b, None] for b in BINDERS]}
    yield {"corpus": "config-path", "contexts": "config-path", "items": []}
    cn = [x for n in context_names() for x in (n, n.upper(), f"{n}()", f"{n}(description)")]
    for i in range(0, len(cn), CHUNK):
        yield {"corpus": "context-names", "contexts": "functions", "items": [[e, False] for e in cn[i:i + CHUNK]]}
    for corpus, items, ctxs in (("node", node_corpus(), "all"), ("payload", payload_corpus(), "all" if tier == "thorough" else "direct+some"),
                                ("closure", list(closure_corpus()), "all" if tier == "thorough" else "direct")):
        for i in range(0, len(items), CHUNK):
            yield {"corpus": corpus, "contexts": ctxs, "items": [[e, bad] for e, bad in items[i:i + CHUNK]]}


# ------------------------------------------------------------------------------------------------ contexts
FILE_POSITIONS = ["match", "let", "field", "tag", "variable", "transform"]


def rules_text(expr, pos):
    var = f"v = {expr}\n" if pos == "variable" else ""
    tr = f"field.description = {expr}\n" if pos == "transform" else ""
    # a top-level variable is read by a condition, by a let: binding, by a tag and by a field of the rule (its VALUE must reach all of them)
    let = f"let: x = {expr}\n" if pos == "let" else ("let: x = v\n" if pos == "variable" else "")
    match = expr if pos == "match" else ("v or x or true" if pos == "variable" else ("x != None" if pos == "let" else "true"))
    tags = f"tags: {{{expr}}}, t\n" if pos == "tag" else ("tags: {v}, {x}, t\n" if pos == "variable" else "tags: t\n")
    fld = f"field: f = {expr}\n" if pos == "field" else ("field: f = v\nfield: g = x\n" if pos == "variable" else "")
    return f"{var}{tr}\n[R]\n{let}match: {match}\ncategory: C\n{tags}{fld}"


def snapshot():
    return copy.deepcopy(TXN), copy.deepcopy(ORDERS), copy.deepcopy(VARS)


def run_direct(expr):
    """Returns (outcome, problems) ; outcome in rejected / expression-error / value / crash"""
    from tally import expr_parser as ep
    problems = []
    H.reset_state()
    with audit.watch() as w:
        try:
            tree = ep.parse_expression(expr)
            err = None
        except ep.ExpressionError as e:
            tree, err = None, e
        except RecursionError:
            tree, err = None, "recursion"
        except Exception as e:  # noqa
            return "crash", [f"parse_expression raised {type(e).__name__}: {e}"]
    bad_ev = [ev for ev in w.events if not (ev[0] == "compile" and ev[1].strip() == expr.strip()[:400])]
    if bad_ev:
        problems.append(f"audit events while parsing: {bad_ev[:3]}")
    if tree is None:
        return "rejected", problems
    dump0 = ast.dump(tree)
    txn, ds, vs = snapshot()
    with audit.watch() as w:
        try:
            val = ep.evaluate_transaction(expr, txn, vs, ds)
            out = "value"
        except ep.ExpressionError:
            val, out = None, "expression-error"
        except RecursionError:
            val, out = None, "expression-error"
        except BaseException as e:  # noqa
            val, out = None, "crash"
            problems.append(f"evaluation raised {type(e).__name__}: {str(e)[:100]}")
        if out == "value":
            try:
                problems += audit.leaks(val)
            except BaseException as e:  # noqa
                problems.append(f"walking the value raised {type(e).__name__}")
    if w.events:
        problems.append(f"audit events while evaluating: {w.events[:3]}")
    if (txn, ds, vs) != (TXN, ORDERS, VARS):
        problems.append("transaction / supplemental rows / variables were modified")
    if ast.dump(tree) != dump0:
        problems.append("the parsed expression tree was modified by evaluation")
    return out, problems


def run_file(expr, pos):
    from tally.merchant_engine import parse_merchants, MerchantParseError
    from tally.merchant_utils import apply_transforms
    from tally import expr_parser as ep
    problems = []
    H.reset_state()
    text = rules_text(expr, pos)
    with audit.watch() as w:
        try:
            eng = parse_merchants(text)
        except MerchantParseError:
            eng = None
        except RecursionError:
            eng = None
        except Exception as e:  # noqa
            return "crash", [f"loader raised {type(e).__name__}: {str(e)[:100]}"]
    bad_ev = [ev for ev in w.events if ev[0] != "compile"]
    if bad_ev:
        problems.append(f"audit events while loading: {bad_ev[:3]}")
    if eng is None:
        return "rejected", problems
    if "\n" in expr:
        return "rejected", problems
    txn, ds, _ = snapshot()
    produced = []
    out = "value"
    with audit.watch() as w:
        try:
            t2 = dict(txn)
            if eng.transforms:
                apply_transforms(t2, eng.transforms)
                produced.append(t2.get("description"))
                produced.append(t2.get("field"))
            r = eng.match(t2, data_sources=ds)
            produced += [sorted(r.tags, key=str), r.extra_fields, r.merchant, r.category]
            tag_intact = RF.split_tags("{" + expr + "}, t") == sorted(["{" + expr + "}", "t"])
            applied = {"match": r.matched, "let": r.matched, "field": bool(r.extra_fields), "tag": len(r.tags) > 1 and tag_intact, "variable": r.matched,
                       "transform": t2.get("description") != TXN["description"]}[pos]
            if not applied:
                out = "expression-error"
        except ep.ExpressionError:
            out = "expression-error"
        except RecursionError:
            out = "expression-error"
        except BaseException as e:  # noqa
            out = "crash"
            problems.append(f"engine raised {type(e).__name__}: {str(e)[:100]}")
        for p in produced:
            try:
                problems += audit.leaks(p, consume_generators=False)
            except BaseException as e:  # noqa
                problems.append(f"walking a produced value raised {type(e).__name__}")
    ev = [e for e in w.events if not (e[0] == "compile" and e[1].strip() == expr.strip()[:400])]
    if ev:
        problems.append(f"audit events while classifying: {ev[:3]}")
    if (txn["field"], ds) != (TXN["field"], ORDERS) and pos != "transform":
        problems.append("custom fields / supplemental rows were modified")
    if ds != ORDERS:
        problems.append("supplemental rows were modified")
    return out, problems


def run_view(expr, pos):
    from tally.section_engine import parse_sections, classify_merchants, SectionParseError
    problems = []
    H.reset_state()
    text = (f"g = {expr}\n\n[V]\nfilter: g\n" if pos == "view-variable" else f"[V]\nfilter: {expr}\n")
    with audit.watch() as w:
        try:
            cfg = parse_sections(text)
        except SectionParseError:
            cfg = None
        except RecursionError:
            cfg = None
        except Exception as e:  # noqa
            return "crash", [f"views loader raised {type(e).__name__}: {str(e)[:100]}"]
    bad_ev = [ev for ev in w.events if ev[0] != "compile"]
    if bad_ev:
        problems.append(f"audit events while loading views: {bad_ev[:3]}")
    if cfg is None:
        return "rejected", problems
    # several payments, deliberately NOT in date order, with differing category / tags per payment
    group = {"merchant": "M", "category": "Food", "subcategory": "Grocery",
             "transactions": [{"amount": 10.0, "date": dt.datetime(2025, 3, 15), "category": "Food", "subcategory": "Grocery", "merchant": "M", "tags": ["a"]},
                              {"amount": 30.5, "date": dt.datetime(2025, 1, 2), "category": "Shop", "subcategory": "Other", "merchant": "M", "tags": ["b", "a"]},
                              {"amount": 7.25, "date": dt.datetime(2025, 2, 20), "category": "Food", "subcategory": "Grocery", "merchant": "M", "tags": []},
                              {"amount": 12.0, "date": dt.datetime(2025, 1, 1), "category": "Food", "subcategory": "Grocery", "merchant": "M", "tags": ["c"]}]}
    g0 = copy.deepcopy(group)
    with audit.watch() as w:
        try:
            res = classify_merchants(cfg, [group], 12, period_data={"month": 1, "year": 1})
            out = "value" if res.get("V") else "expression-error"
        except BaseException as e:  # noqa
            out = "crash"
            problems.append(f"classify_merchants raised {type(e).__name__}: {str(e)[:100]}")
    if w.events:
        problems.append(f"audit events while evaluating a view: {w.events[:3]}")
    if group != g0:
        problems.append("merchant data was modified by a view expression")
    return out, problems


def contexts_for(case_ctx, idx):
    if case_ctx == "functions":
        return ["direct", "match", "tag", "view-filter", "view-variable"]
    if case_ctx in FILE_POSITIONS or case_ctx in ("view-filter", "view-variable"):
        return [case_ctx]
    if case_ctx == "direct":
        return ["direct"]
    if case_ctx == "direct+some":
        # every string directly; file / view contexts round-robin so that each context sees 1/8 of the splices
        extra = (FILE_POSITIONS + ["view-filter", "view-variable"])[idx % 8]
        return ["direct", extra]
    return ["direct"] + FILE_POSITIONS + ["view-filter", "view-variable"]


def run_residue(binder):
    """Evaluate `binder` on TXN (directly, and as the first rule of a file), then every reader on another transaction."""
    from tally import expr_parser as ep
    from tally.merchant_engine import parse_merchants
    out = []
    H.reset_state()
    for entry in ("direct", "engine"):
        for reader, want in READERS:
            txn, ds, vs = snapshot()
            if entry == "direct":
                try:
                    ep.evaluate_transaction(binder, txn, vs, ds)
                except ep.ExpressionError:
                    pass
                try:
                    got = ("value", ep.evaluate_transaction(reader, copy.deepcopy(TXN_B), dict(VARS), copy.deepcopy(ORDERS)))
                except ep.ExpressionError:
                    got = ("error", None)
            else:
                try:
                    eng = parse_merchants(f"[Bind]\nmatch: {binder}\ntags: b\n\n[Read]\nmatch: ({reader}) == ({reader})\nfield: got = {reader}\ncategory: R\n")
                except Exception:  # noqa  (a binder the loader rejects binds nothing)
                    continue
                eng.match(txn, data_sources=ds)
                r = eng.match(copy.deepcopy(TXN_B), data_sources=copy.deepcopy(ORDERS))
                got = ("value", (r.extra_fields or {}).get("got")) if r.matched else ("error", None)
            if want == "N_ORDERS":
                want = len(ORDERS["orders"])
            ok = (got[0] == "error") if want == "error" else (got == ("value", want))
            out.append((entry, reader, want, got, ok))
    H.reset_state()
    return out


def run_config_path():
    """Supplemental rows loaded the way `tally up` loads them (load_config + load_supplemental_sources from a budget on disk), then
    queried by rules: evaluation reads the rows it was given - it opens no file and does not change the mapping."""
    import shutil
    from tally.config_loader import load_config, load_supplemental_sources
    from tally.merchant_engine import parse_merchants
    problems = []
    base = os.path.join(R.scratch(), "c03budget")
    shutil.rmtree(base, ignore_errors=True)
    os.makedirs(os.path.join(base, "config"))
    os.makedirs(os.path.join(base, "data"))
    with open(os.path.join(base, "data", "orders.csv"), "w") as f:
        f.write("Date,Item,Amount\n2025-01-15,Book,50.0\n2025-02-01,Pen,0.25\n")
    with open(os.path.join(base, "data", "s.csv"), "w") as f:
        f.write("Date,Description,Amount\n01/15/2025,NETFLIX 123,50.00\n")
    with open(os.path.join(base, "config", "settings.yaml"), "w") as f:
        f.write('year: 2025\ndata_sources:\n  - name: S\n    file: data/s.csv\n    format: "{date:%m/%d/%Y},{description},{amount}"\n'
                '  - name: orders\n    file: data/orders.csv\n    format: "{date:%Y-%m-%d},{item},{amount}"\n    columns:\n      description: "{item}"\n    supplemental: true\n')
    cfg = load_config(os.path.join(base, "config"))
    ds = load_supplemental_sources(cfg, os.path.join(base, "config"))
    before_keys = sorted(ds)
    before = copy.deepcopy({k: (list(v) if v is not None else None) for k, v in dict(ds).items()})
    eng = parse_merchants('[Ordered]\nlet: hits = [r.item for r in orders if r.amount == amount]\nmatch: len(hits) > 0 and any(r.item == "Pen" for r in orders)\n'
                          'category: Shopping\ntags: {hits[0]}, {len(orders)}\nfield: n = len(orders)\n')
    with audit.watch() as w:
        try:
            r = eng.match(dict(TXN), data_sources=ds)
            r2 = eng.match(dict(TXN, amount=0.25), data_sources=ds)
        except BaseException as e:  # noqa
            problems.append(f"engine raised {type(e).__name__}: {str(e)[:100]}")
            r = r2 = None
    ev = [e for e in w.events if e[0] != "compile"]        # tag expressions are parsed (compiled to an AST) on first use
    if ev:
        problems.append(f"audit events while classifying with supplemental rows loaded from disk: {ev[:3]}")
    after = {k: (list(v) if v is not None else None) for k, v in dict(ds).items()}
    if sorted(ds) != before_keys or after != before:
        problems.append("the supplemental-rows mapping was modified by evaluation")
    if r is not None and not (r.matched and r2.matched):
        problems.append("a rule querying rows loaded from disk did not match")
    # the same rows through the two routes a statement takes (normalize_merchant with the rules file loaded from disk, and the whole
    # statement through parse_generic_csv), with a rule that hands a looked-up ROW on as a field value and as a let binding: the rows -
    # values and value types (the date column holds dates) - are the same objects with the same content afterwards
    from tally.merchant_utils import get_all_rules, get_transforms, normalize_merchant
    from tally.parsers import parse_generic_csv
    rules_path = os.path.join(base, "config", "merchants.rules")
    with open(rules_path, "w") as f:
        f.write('[Ordered]\nlet: order = next((r for r in orders if r.amount == amount), None)\nmatch: contains("NETFLIX") and order != None\n'
                'category: Shopping\nfield: order = order\nfield: all = [r for r in orders]\ntags: {order.item}\n\n'
                '[SameDay]\nmatch: date in [r.date for r in orders]\ntags: order-day\n')

    def _typed(rows):
        return [[(k, type(v).__name__, v) for k, v in sorted(dict(r).items())] for r in rows]
    typed_before = {k: _typed(v) for k, v in dict(ds).items() if v is not None}
    H.reset_state()
    try:
        transforms = get_transforms(rules_path)
        rules = get_all_rules(rules_path)
        first = normalize_merchant("NETFLIX 123", rules, amount=50.0, txn_date=dt.date(2025, 1, 15), transforms=transforms, data_sources=ds)
        if {k: _typed(v) for k, v in dict(ds).items() if v is not None} != typed_before:
            problems.append("the supplemental rows were modified by normalize_merchant (a rule keeps a row as a field value)")
        src = [x for x in cfg["data_sources"] if not x.get("_supplemental")][0]
        txns = parse_generic_csv(os.path.join(base, "data", "s.csv"), src["_format_spec"], rules, source_name=src["name"],
                                 transforms=transforms, data_sources=ds)
        if {k: _typed(v) for k, v in dict(ds).items() if v is not None} != typed_before:
            problems.append("the supplemental rows were modified by parse_generic_csv (a rule keeps a row as a field value)")
        if first[1] != "Shopping" or not txns or txns[0].get("category") != "Shopping":
            problems.append("a rule querying rows loaded from disk did not match through the statement routes")
    except BaseException as e:  # noqa
        problems.append(f"statement route raised {type(e).__name__}: {str(e)[:100]}")
    shutil.rmtree(base, ignore_errors=True)
    return problems


def check_case(case):
    viol, evals, nontrivial = [], 0, 0
    outcomes = set()
    if case["corpus"] == "config-path":
        probs = run_config_path()
        for p in probs:
            kind = ("audit-event" if "audit events" in p else "state-modified" if "modified" in p else "crash")
            viol.append({"kind": kind, "detail": {"context": "rows loaded by load_supplemental_sources", "problem": p}, "case": case})
        return {"evals": 1, "nontrivial": 1, "outcomes": ["config-path:" + ("ok" if not probs else "problem")], "violations": viol, "sample_repr": {"corpus": "config-path"}}
    if case["corpus"] == "residue":
        for binder, _ in case["items"]:
            for entry, reader, want, got, ok in run_residue(binder):
                evals += 1
                nontrivial += 1
                outcomes.add(f"residue-{entry}:{'clean' if ok else 'LEAK'}")
                if not ok:
                    viol.append({"kind": "binding-survives-evaluation", "detail": {"first_expression": binder, "then": reader, "entry": entry,
                                                                                   "expected": want, "got": repr(got)[:120]},
                                 "case": {"corpus": "residue", "contexts": "residue", "items": [[binder, None]]}})
        return {"evals": evals, "nontrivial": nontrivial, "outcomes": sorted(outcomes), "violations": viol[:60],
                "sample_repr": {"corpus": "residue", "binders": [b for b, _ in case["items"][:4]]}}
    for idx, (expr, must_reject) in enumerate(case["items"]):
        try:
            import warnings
            with warnings.catch_warnings():
                warnings.simplefilter("ignore")
                ast.parse(expr, mode="eval")
            is_python = True
        except (SyntaxError, ValueError, RecursionError):
            is_python = False
        for ctx in contexts_for(case["contexts"], idx):
            evals += 1
            nontrivial += 1 if is_python else 0
            if ctx == "direct":
                out, problems = run_direct(expr)
            elif ctx.startswith("view"):
                out, problems = run_view(expr, ctx)
            else:
                out, problems = run_file(expr, ctx)
            outcomes.add(f"{ctx}:{out}")
            sub = {"corpus": case["corpus"], "contexts": ctx, "items": [[expr, must_reject]]}
            if case["corpus"] == "functions":
                documented = VIEW_FUNCS if ctx.startswith("view") else TXN_FUNCS
                for p in problems:
                    kind = ("audit-event" if "audit events" in p else "state-modified" if "modified" in p else "crash" if "raised" in p else "interpreter-object-leaks")
                    viol.append({"kind": kind, "detail": {"expression": expr, "context": ctx, "problem": p}, "case": sub})
                if must_reject not in documented and out == "value":
                    viol.append({"kind": "undocumented-function-callable", "detail": {"expression": expr, "context": ctx}, "case": sub})
                continue
            for p in problems:
                kind = ("audit-event" if "audit events" in p else "state-modified" if "modified" in p else
                        "crash" if "raised" in p else "interpreter-object-leaks")
                viol.append({"kind": kind, "detail": {"expression": expr, "context": ctx, "problem": p}, "case": sub})
            if must_reject and out == "value" and not ctx.startswith("view"):
                viol.append({"kind": "undocumented-construct-evaluates", "detail": {"expression": expr, "context": ctx}, "case": sub})
    return {"evals": evals, "nontrivial": nontrivial, "outcomes": sorted(outcomes), "violations": viol[:60],
            "sample_repr": {"corpus": case["corpus"], "strings": [e for e, _ in case["items"][:6]]}}
