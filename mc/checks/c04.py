"""C04 - expressions mean what the reference says: logic, comparisons, match functions.

Exhaustive: every well-typed expression of a typed grammar (Bool / Num / Str / Rows) up to an operator
bound, evaluated on 12 transactions (boundary amounts, month and year boundaries, empty strings, missing
date / fields) with supplemental rows, by the real evaluator and by an independent reference interpreter
(mc/ref/expr.py: translation to Python evaluated by Python itself).  Where the reference is defined the
values must be identical.  Independently of the reference, equivalence laws are checked on every pair of
a 30-element Boolean basis x every transaction: double negation, De Morgan (both), commutation of
error-free and/or operands, a<b<c == (a<b and b<c), invariance under ASCII letter-case changes of string
literals / description / function, variable, txn. and field. names, short-circuit with an erroring right
operand, left-to-right order observable through :=, and agreement of evaluate_transaction with
matches_transaction and a one-rule MerchantEngine.
"""
import datetime as dt
import itertools
import types

from mc.core import harness as H
from mc.ref import expr as REF

PROPERTY = "C04"
LEVEL = "exploration"
RULE = ("cases = chunks of (a) all expressions of the typed grammar with <= K operators (K=2 quick, 3 thorough; layered Bool/Num/Str/Rows sets, see bounds), "
        "each on 16 transactions vs the reference interpreter (and again without variables / supplemental sources), and (b) law instances over all ordered pairs / triples of a 30-element Boolean basis. "
        "non-trivial = (expression, transaction) pairs on which the reference is defined (no error) - for laws: instances where both sides evaluate; "
        "expressions are de-duplicated as strings")
ASSUMPTIONS = ["reference clauses are those of DESIGN.md section 4/C04 (documented tables; Python semantics for the Python-like constructs)",
               "cases where the reference itself raises are ill-typed and belong to C08; fuzzy() only for exact substrings; non-ASCII case folding not judged",
               "values compared by type and value (generators are consumed on both sides)"]

D = dt.date
TXNS = [
    {"description": "NETFLIX.COM 123", "amount": 100.0, "date": D(2025, 1, 15), "field": {"memo": "REF 77", "type": "WIRE"}, "source": "Amex"},
    {"description": "netflix", "amount": -50.0, "date": D(2024, 12, 31), "field": {"memo": "", "type": "ach"}, "source": "chase"},
    {"description": "UBER EATS", "amount": 99.75, "date": D(2025, 1, 1), "field": None, "source": None},
    {"description": "UBER TRIP 77", "amount": 100.25, "date": D(2025, 2, 1), "field": {"memo": " padded ", "type": "Wire"}, "source": "Amex"},
    {"description": "", "amount": 0.0, "date": None, "field": None, "source": ""},
    {"description": "AMAZON MKTP", "amount": 0.25, "date": D(2025, 12, 31), "field": {"memo": "A-B-C", "type": "X"}, "source": "chase"},
    {"description": "Book", "amount": 99.75, "date": D(2025, 1, 15), "field": {"memo": "Book", "type": "WIRE"}, "source": "Amex"},
    {"description": "COSTCO GAS", "amount": 500.0, "date": D(2025, 6, 15), "field": {"memo": "ref 5"}, "source": "Amex"},
    {"description": "  spaced  out ", "amount": -0.25, "date": D(2025, 2, 28), "field": {"memo": "X"}, "source": "chase"},
    {"description": "A|B x", "amount": 1.0, "date": D(2023, 1, 1), "field": {"memo": "netflix"}, "source": "AMEX"},
    {"description": "Pen", "amount": 0.25, "date": D(2025, 2, 1), "field": None, "source": "amex"},
    {"description": "O'REILLY-AUTO * 9", "amount": 12.5, "date": D(2025, 1, 19), "field": {"memo": "123"}, "source": "Amex"},
    # twins of earlier transactions: same description, different amount / date / fields / source (a result must never be
    # carried over from one to the other)
    {"description": "NETFLIX.COM 123", "amount": -7.0, "date": D(2024, 12, 1), "field": {"memo": "other", "type": "ach"}, "source": "chase"},
    {"description": "UBER EATS", "amount": 250.0, "date": D(2025, 12, 6), "field": {"memo": "REF 9"}, "source": "Amex"},
    # literal regex metacharacters in the description (substring functions are not regexes)
    {"description": "AMZN*MKTP (US) PARK+RIDE AMAZON.COM", "amount": 20.0, "date": D(2025, 3, 9), "field": {"memo": "a.b"}, "source": "Amex"},
    {"description": "AMZNNMKTP PARKKRIDE AMAZONXCOM", "amount": 20.0, "date": D(2025, 3, 9), "field": {"memo": "axb"}, "source": "Amex"},
    # an amount less than half a cent away from a literal and from a supplemental row's amount (== is exact: 99.754 is not 99.75)
    {"description": "Pen", "amount": 99.754, "date": D(2025, 1, 15), "field": {"memo": "ref 5"}, "source": "amex"},
]
ORDERS = {"orders": [{"item": "Book", "amount": 99.75, "date": D(2025, 1, 15)}, {"item": "Pen", "amount": 0.25, "date": D(2025, 2, 1)},
                     {"item": "book club", "amount": 100.0, "date": D(2024, 12, 31)}],
          # a source whose LAST row is short (no item column), as load_supplemental_sources builds for a short CSV line
          "items": [{"item": "lamp", "amount": 25.0}, {"item": "rug", "amount": 99.75}, {"amount": 3.0}]}
VARS = {"threshold": 100, "tagname": "UBER"}

LITS = ['"NETFLIX"', '"netflix"', '"UBER"', '""', '"X"']
STR0 = ["description", "field.memo", "source", "tagname"] + LITS
NUM0 = ["amount", "0", "2", "100", "99.75", "month", "threshold"]
METAS = ['"AMZN*MKTP"', '"AMAZON.COM"', '"PARK+RIDE"', '"(US)"', '"(US"', '"MKTP ("', '"[x"', '"a|b"', '"$"', '"^"', '"."', '"\\\\"']
PATS = ['"NETFLIX"', '"UBER\\\\s(?!EATS)"', '"^AMAZON"', '"A|B"', '"\\\\d{3}"', '"\\\\D{3}"', '"uber\\\\S"']


def str1():
    out = []
    for s in ("", "description, ", "field.memo, "):
        out += [f'extract({s}"(\\\\d+)")', f'extract({s}"REF (\\\\d+)")', f'extract({s}"(a)|UBER")', f'split({s}" ", 0)', f'split({s}"-", 1)', f'split({s}" ", 9)']
    for s in ("", "description, "):
        out += [f"substring({s}0, 4)", f"substring({s}2, 2)", f"substring({s}3, 99)"]
    out += ["trim()", "trim(field.memo)", "trim(description)"]
    for s in ("description", "field.memo", '"MiXed Case "'):
        out += [f"uppercase({s})", f"lowercase({s})", f'strip_prefix({s}, "NET")', f'strip_prefix({s}, "")', f'strip_prefix({s}, {s})', f'strip_suffix({s}, "77")',
                f'strip_suffix({s}, "")', f'strip_suffix({s}, {s})', f'regex_replace({s}, "\\\\s+", "_")', f'regex_replace({s}, "^NET", "")',
                f'regex_replace({s}, "E", "3")', f"{s}.lower()", f"{s}.upper()", f"{s}.strip()", f'{s}.replace("E", "e")', f'{s}.replace(" ", "")']
    return out


def num1():
    out = []
    base = ["amount", "0", "2", "100", "month"]
    for a in base:
        for b in base:
            for op in "+-*/%":
                out.append(f"{a} {op} {b}")
    out += ["-amount", "-month", "abs(amount)", "abs(-2)", "round(amount)", "round(99.75)", "len(description)", "len(orders)", "len(field.memo)",
            "sum(r.amount for r in orders)", "len([r for r in orders])", "min(amount, 100)", "max(amount, 100)", "weekday", "year", "day"]
    return out


def bool1():
    out = ["true", "false"]
    for f in ("contains", "startswith", "normalized"):
        for l in LITS + ['"uber eats"', '"OREILLYAUTO"', '"spaced out"']:
            out.append(f"{f}({l})")
            out.append(f"{f}(field.memo, {l})")
    for l in METAS:
        out += [f"contains({l})", f"startswith({l})", f"anyof({l})", f"anyof(\"zzz\", {l})", f"anyof({l}, \"(\")", f"{l} in description",
                f"contains(field.memo, {l})", f"normalized({l})", f"fuzzy({l})"]
    out += ['anyof("A.B", "zzz")', 'contains(field.memo, "A.B")', 'anyof(field.memo, "q", "A.B")' if False else 'anyof("PARK+RIDE", "AMZN*MKTP")']
    for l in LITS:
        out.append(f"anyof({l}, \"GAS\")")
        out.append(f"{l} in description")
        out.append(f"{l} not in description")
        out.append(f"description == {l}")
        out.append(f"description != {l}")
        out.append(f"source == {l}")
    out += ['source == "Amex"', 'source != "AMEX"', 'field.type == "WIRE"', 'field.type != "wire"', 'field.memo == ""', 'tagname in description',
            'exists(field.memo)', 'exists(field.nope)', 'exists(field.type)', 'fuzzy("NETFLIX")', 'fuzzy("")']
    for p in PATS:
        out.append(f"regex({p})")
        out.append(f"regex(field.memo, {p})")
    for c in ("-50", "0", "99.75", "100", "100.25"):
        for op in ("<", "<=", ">", ">=", "==", "!="):
            out.append(f"amount {op} {c}")
    for name, cs in (("month", ("1", "12")), ("year", ("2025",)), ("day", ("1", "15", "31")), ("weekday", ("0", "2", "5"))):
        for c in cs:
            for op in ("<", "<=", ">", ">=", "==", "!="):
                out.append(f"{name} {op} {c}")
    for iso in ('"2024-12-31"', '"2025-01-01"', '"2025-01-15"', '"2025-12-31"'):
        for op in ("<", "<=", ">", ">=", "==", "!="):
            out.append(f"date {op} {iso}")
        out.append(f"{iso} <= date")
    # match functions used as VALUES, not as plain conjuncts (nothing may be decided from their literals alone)
    out += ['contains("NETFLIX") == false', 'contains("UBER") == contains("EATS")', 'contains("NETFLIX") + contains("UBER") + contains("EATS") >= 2',
            'startswith("UBER") != true', 'len([r for r in orders if contains("AMAZON")]) == 0', '(1 if contains("NETFLIX") else 2) == 2',
            'not (contains("UBER") and contains("EATS")) and amount > 0', 'contains("NETFLIX") or amount > 99.75', 'max(contains("ZZZ"), amount > 0)']
    out += ["txn.amount > 99.75", "TXN.Amount > 99.75", "field.amount == amount", "txn.description == description", "txn.month == month",
            "field.date == date", "amount > threshold", "Amount > Threshold"]
    return out


BASIS = ['contains("NETFLIX")', 'contains("uber")', "amount > 99.75", "amount <= 100", "amount < 0", "month == 1", "month >= 12", 'date >= "2025-01-01"',
         'date < "2025-02-01"', 'field.type == "WIRE"', 'source == "amex"', '"EATS" in description', 'regex("^AMAZON")', 'regex("\\\\d{3}")',
         'regex("\\\\D{3}")', 'extract("(\\\\D+)") == "77"', 'normalized("OREILLYAUTO")', 'startswith("UBER")', 'exists(field.memo)', "true", "false", "weekday >= 5", 'description == ""', "amount == 0",
         'anyof("GAS", "PEN")', "year == 2025", 'extract("(\\\\d+)") == "77"', "len(description) > 9", "any(r.amount == amount for r in orders)",
         'field.memo == "x"']


def rows_exprs():
    out = []
    fs = ["r", "r.item", "r.amount", "r.amount * 2", "r.item.lower()"]
    cs = ["", " if r.amount > 1", ' if r.item == "book"', " if r.amount == amount", ' if contains(r.item, "B")', " if r.date >= date",
          " if r.amount > 1 if r.amount < 100", ' if r.item == description']
    for f in fs:
        for c in cs:
            comp = f"{f} for r in orders{c}"
            out.append(f"[{comp}]")
            out.append(f"len([{comp}])")
            out.append(f"any({comp})")
            out.append(f"all({comp})")
            out.append(f"next(({comp}), None)")
            if f in ("r.amount", "r.amount * 2"):
                out.append(f"sum({comp})")
                out.append(f"sum({comp}) > 100")
                out.append(f"min(({comp}), default=0)" if False else f"next(({comp}), 0) + 1")
            out.append(f"[{comp}][0]" if not c else f"len([{comp}]) > 0 and [{comp}][0] == [{comp}][0]")
    out += ["[a.item for a in orders for b in orders if a.amount > b.amount]", "[a.amount + b.amount for a in orders for b in orders]",
            "sum(a.amount for a in orders for b in orders if a.item == b.item)", "len([1 for a in orders if any(b.amount > a.amount for b in orders)])",
            "(m := [r for r in orders if r.amount == amount]) and len(m) > 0", "(m := [r.item for r in orders]) and m[0] == \"Book\" and len(m) == 3",
            "[amount for amount in orders][0].item", "any(description == \"Book\" for description in [r.item for r in orders]) and description != \"\"",
            "[r.amount for r in orders if r.amount == amount] == [amount] or amount != 99.75", "orders[0].item", "orders[1].amount + amount",
            'orders[2]["item"]', "len(orders) == 3", "max(r.amount for r in orders)", "min(r.amount for r in orders)",
            "max(r.amount for r in orders) > amount", "next((r.item for r in orders if r.amount == amount), \"none\")",
            "next((r for r in orders if r.amount > 1000), None) == None", "sum([r.amount for r in orders], 1)",
            "all(r.amount > 0 for r in orders) and any(r.item == \"PEN\" for r in orders)",
            "[r.item for r in orders if r.date == date]", "[r.item for r in orders if r.date <= \"2025-01-15\"]",
            "[r.item for r in orders if r.date == \"2025-01-15\"]", "any(r.date == \"2025-02-01\" for r in orders)", "sum(r.amount for r in orders if r.date == \"2024-12-31\")",
            "next((r.item for r in orders if r.date == txn.date), \"none\")", "[r.item for r in orders if \"2025-01-15\" == r.date]", "[r.item for r in orders if r.date != \"2025-01-15\"]",
            "[r.item for r in orders if r.date == date and r.amount == amount]", "[r.item for r in orders if r.amount == amount and r.date == \"2025-01-15\"]",
            "len([r for r in orders if r.item == \"BOOK\"])", "len([r for r in orders if r.item == description])", "[r.amount for r in orders if r.amount == 100]",
            "[r.item for r in orders if r.amount == \"99.75\"]",
            # inner iterables that are generator expressions / depend on the outer row (nothing may be computed once and reused)
            "len([p.item for r in orders for p in (q for q in orders if q.amount > 0)])", "[p.item for r in orders for p in (q for q in items if q.amount >= r.amount)]",
            "[p.item for r in orders if (k := r.amount) > 0 for p in [q for q in orders if q.amount == k]]", "sum(p.amount for r in items for p in (q for q in orders))",
            "[[q.item for q in orders if q.amount <= r.amount] for r in orders]", "len([1 for a in orders for b in (x for x in orders) for c in (y for y in orders)])",
            "next((amount for amount in orders), 0) != 0 and amount > 100", "any(r.amount > 50 for r in orders) and r_missing == 1 or true",
            "(n := len(orders)) and n + n", 'any(r.item == "lamp" for r in items)', 'next((r.item for r in items), "none")',
            'next((r.item for r in items if r.amount == amount), "none")', "all(r.amount > 100 for r in items)", 'any(r.item == "rug" and r.amount == amount for r in items)',
            "any((seen := r.amount) > 20 for r in orders) and seen == 99.75", "next(((hit := r.item) for r in orders if r.amount == amount), \"\") == hit or amount != 99.75",
            "all((last := r.amount) < 50 for r in orders) or last == 99.75",
            "len([(last := r.amount) for r in orders]) == 3 and last == 100.0", "[r.item for r in orders if (seen := r.amount) > 50] and seen == 100.0",
            "(total := 0) == 0 and len([(total := total + r.amount) for r in orders]) == 3 and total == 200.0", "len([r for r in items]) == 3", "sum(r.amount for r in items)", "(first := orders[0]) and first.item", "[x.upper() for x in [r.item for r in orders]]"]
    return out


def all_expressions(tier):
    """Layered, de-duplicated list of (expression) strings."""
    s1, n1, b1 = str1(), num1(), bool1()
    exprs = []
    exprs += STR0 + NUM0 + s1 + n1 + b1 + rows_exprs()
    # size 2
    for b in b1:
        exprs.append(f"not {b}")
    for a, b in itertools.product(BASIS, repeat=2):
        exprs.append(f"{a} and {b}")
        exprs.append(f"{a} or {b}")
    for n in n1:
        for c in ("0", "100", "amount"):
            for op in ("<", "==", ">="):
                exprs.append(f"{n} {op} {c}")
    for a, b, c in itertools.product(["amount", "0", "99.75", "100", "month"], repeat=3):
        for o1, o2 in (("<", "<"), ("<=", "<"), ("<", "<="), ("==", "=="), (">", ">="), ("!=", "<")):
            exprs.append(f"{a} {o1} {b} {o2} {c}")
            exprs.append(f"not ({a} {o1} {b} {o2} {c})")
            exprs.append(f"not {a} {o1} {b} {o2} {c}")
    for s in s1:
        for l in LITS:
            exprs.append(f"{s} == {l}")
            exprs.append(f"{l} in {s}")
        exprs.append(f"contains({s}, \"E\")")
        exprs.append(f"len({s})")
        exprs.append(f"{s} != description")
    for b in BASIS:
        exprs.append(f"1 if {b} else 2")
        exprs.append(f"amount if {b} else -amount")
        exprs.append(f'"yes" if {b} else "no"')
    for n in n1:
        exprs.append(f"-({n})")
        exprs.append(f"abs({n})")
        exprs.append(f"({n}) * 2")
        exprs.append(f"({n}) / amount")
        exprs.append(f"({n}) % 2")
    if tier == "thorough":
        for a, b, c in itertools.product(BASIS, repeat=3):
            exprs.append(f"{a} and {b} or {c}")
            exprs.append(f"{a} or {b} and {c}")
            exprs.append(f"not ({a} and {b}) or {c}")
            exprs.append(f"{a} and ({b} or not {c})")
        for a, b in itertools.product(BASIS, repeat=2):
            exprs.append(f"1 if {a} and {b} else 2")
            exprs.append(f"not {a} or not {b}")
        for n, m in itertools.product(n1, ["amount", "2", "month"]):
            for op in "+-*/%":
                exprs.append(f"({n}) {op} {m}")
                exprs.append(f"({n}) {op} {m} > 0")
        for s, t in itertools.product(s1, s1[::7]):
            exprs.append(f"{s} == {t}")
            exprs.append(f"{s} in {t}")
    seen, out = set(), []
    for e in exprs:
        if e not in seen:
            seen.add(e)
            out.append(e)
    return out


# ------------------------------------------------------------------------------------------------ laws
def swapcase_variants(e):
    """Letter-case rewritings that must not change the result."""
    import re
    out = []
    # function, variable, txn./field. names
    def names(m):
        return m.group(0).swapcase() if m.group(0).lower() not in ("and", "or", "not", "in", "if", "else", "for", "none") else m.group(0)
    no_strings = re.split(r'("(?:[^"\\]|\\.)*")', e)
    out.append("".join(p if p.startswith('"') else re.sub(r"[A-Za-z_][A-Za-z_0-9]*", names, p) for p in no_strings))
    # string literals without backslashes (regex escapes are case-sensitive)
    out.append("".join((p.swapcase() if p.startswith('"') and "\\" not in p and not re.match(r'"\d{4}-', p) else p) for p in no_strings))
    return [v for v in out if v != e]


def gen_law_cases(tier):
    for a, b in itertools.product(range(len(BASIS)), repeat=2):
        yield {"law": "pair", "a": a, "b": b}
    nums = ["amount", "0", "99.75", "100", "100.25", "month"]
    yield {"law": "chains", "nums": nums}
    # un-parenthesised  a and b or c  through the rule engine (quick: a over the description-matching basis elements)
    firsts = [i for i, e in enumerate(BASIS) if e.startswith(("contains(", "regex(", "startswith(", "normalized(", "anyof("))]
    for a in (firsts if tier == "quick" else range(len(BASIS))):
        for b in range(len(BASIS)):
            yield {"law": "engine-mix", "a": a, "b": b}
    yield {"law": "shortcircuit"}


CHUNK = 60


def bounds(tier):
    return {"max_operators": 2 if tier == "quick" else 3, "expressions": len(all_expressions(tier)), "transactions": len(TXNS), "boolean_basis": len(BASIS),
            "str1": len(str1()), "num1": len(num1()), "bool1": len(bool1()), "rows": len(rows_exprs())}


def gen_cases(tier):
    ex = all_expressions(tier)
    for i in range(0, len(ex), CHUNK):
        yield {"kind": "ref", "exprs": ex[i:i + CHUNK]}
    for c in gen_law_cases(tier):
        yield dict(c, kind="law")


# ------------------------------------------------------------------------------------------------ evaluation helpers
def txn_for_real(t):
    d = {"description": t["description"], "amount": t["amount"], "field": dict(t["field"]) if t["field"] is not None else None, "source": t["source"]}
    if t["date"]:
        d["date"] = t["date"]
    return d


def norm(v):
    if isinstance(v, types.GeneratorType):
        v = list(v)
    if isinstance(v, list):
        return ("list", [norm(x) for x in v])
    if isinstance(v, dict):
        return ("row", sorted((k, norm(x)) for k, x in v.items()))
    if isinstance(v, float) and v == int(v) and abs(v) < 1e15:
        return ("num", float(v))
    if isinstance(v, bool):
        return ("bool", v)
    if isinstance(v, int):
        return ("num", float(v))
    return (type(v).__name__, v if not isinstance(v, float) else repr(v))


def real_eval(e, t):
    from tally.expr_parser import evaluate_transaction, ExpressionError
    import copy
    try:
        return "ok", norm(evaluate_transaction(e, txn_for_real(t), dict(VARS), copy.deepcopy(ORDERS)))
    except ExpressionError as ex:
        return "error", str(ex)[:80]
    except Exception as ex:  # noqa
        return "crash", f"{type(ex).__name__}: {ex}"[:100]


def ref_eval(e, t, bare=False):
    import copy
    try:
        return "ok", norm(REF.evaluate(e, dict(t, field=dict(t["field"]) if t["field"] is not None else None), None if bare else dict(VARS),
                                       None if bare else copy.deepcopy(ORDERS)))
    except Exception as ex:  # noqa
        return "undefined", type(ex).__name__


def real_eval_bare(e, t):
    """The same expression evaluated the way a caller without variables / supplemental sources does."""
    from tally.expr_parser import evaluate_transaction, ExpressionError
    try:
        return "ok", norm(evaluate_transaction(e, txn_for_real(t)))
    except ExpressionError as ex:
        return "error", str(ex)[:80]
    except Exception as ex:  # noqa
        return "crash", f"{type(ex).__name__}: {ex}"[:100]


_NEEDS_ENV = ("threshold", "tagname", "orders", "items")


def check_ref(case):
    viol, evals, nontrivial = [], 0, 0
    outcomes = set()
    for e in case["exprs"]:
        for ti, t in enumerate(TXNS):
            evals += 1
            rk, rv = ref_eval(e, t)
            if rk != "ok":
                outcomes.add("reference-undefined")
                continue
            nontrivial += 1
            gk, gv = real_eval(e, t)
            if gk != "ok" or gv != rv:
                outcomes.add("MISMATCH")
                if len(viol) < 25:
                    viol.append({"kind": "differs-from-reference", "detail": {"expression": e, "txn": ti, "transaction": t, "reference": rv, "real": (gk, gv)},
                                 # the replay re-evaluates the whole chunk in order (results must not, but might, depend on what was evaluated before)
                                 "case": {"kind": "ref", "exprs": case["exprs"]}})
            else:
                outcomes.add("agree:" + rv[0])
        # the rule engine must find a rule with this condition true exactly when the expression's value is truthy
        if not getattr(check_ref, "_skip_engine", False):
            from tally.merchant_engine import parse_merchants, MerchantParseError
            import copy
            try:
                eng = parse_merchants(f"threshold = 100\ntagname = \"UBER\"\n[R]\nmatch: {e}\ncategory: C\n")
            except Exception:  # noqa  (conditions the loader rejects are not rules)
                eng = None
            if eng is not None:
                for ti, t in enumerate(TXNS):
                    rk, rv = ref_eval(e, t)
                    if rk != "ok":
                        continue
                    evals += 1
                    try:
                        m = eng.match(txn_for_real(t), data_sources=copy.deepcopy(ORDERS)).matched
                    except Exception as ex:  # noqa
                        m = f"{type(ex).__name__}"
                    want = bool(rv[1]) if rv[0] != "list" else bool(rv[1])
                    if m != want:
                        outcomes.add("MISMATCH")
                        if len(viol) < 25:
                            viol.append({"kind": "entry-points-disagree", "detail": {"expression": e, "txn": ti, "reference_value": rv, "engine_matched": m},
                                         "case": {"kind": "ref", "exprs": case["exprs"]}})
                # ... and so must the path a statement row takes: the same one-rule file loaded from disk the way `tally up` loads it, the
                # row classified by normalize_merchant (which receives the description exactly as the statement has it)
                from mc.checks import rules_common as R
                from tally.merchant_utils import normalize_merchant
                path = R.write_scratch("c04.rules", f"threshold = 100\ntagname = \"UBER\"\n[R]\nmatch: {e}\ncategory: C\n")
                try:
                    rules, transforms = R.load_path(path)
                except Exception:  # noqa
                    rules = None
                if rules is not None:
                    for ti, t in enumerate(TXNS):
                        rk, rv = ref_eval(e, t)
                        if rk != "ok":
                            continue
                        evals += 1
                        try:
                            got = normalize_merchant(t["description"], rules, amount=t["amount"], txn_date=t["date"],
                                                     field=dict(t["field"]) if t["field"] is not None else None, data_source=t["source"],
                                                     transforms=transforms, data_sources=copy.deepcopy(ORDERS))[1] == "C"
                        except Exception as ex:  # noqa
                            got = f"{type(ex).__name__}"
                        if got != bool(rv[1]):
                            outcomes.add("MISMATCH")
                            if len(viol) < 25:
                                viol.append({"kind": "entry-points-disagree", "detail": {"expression": e, "txn": ti, "reference_value": rv, "normalize_merchant_matched": got},
                                             "case": {"kind": "ref", "exprs": case["exprs"]}})
        if any(w in e.lower() for w in _NEEDS_ENV):
            continue
        # second pass over all transactions without variables / sources (one expression, many transactions in a row)
        for ti, t in enumerate(TXNS):
            rk, rv = ref_eval(e, t, bare=True)
            if rk != "ok":
                continue
            evals += 1
            nontrivial += 1
            gk, gv = real_eval_bare(e, t)
            if gk != "ok" or gv != rv:
                outcomes.add("MISMATCH")
                if len(viol) < 25:
                    viol.append({"kind": "differs-from-reference", "detail": {"expression": e, "txn": ti, "transaction": t, "reference": rv, "real": (gk, gv),
                                                                              "mode": "no variables, no supplemental sources"},
                                 "case": {"kind": "ref", "exprs": case["exprs"]}})
    return {"evals": evals, "nontrivial": nontrivial, "outcomes": sorted(outcomes), "violations": viol,
            "sample_repr": {"expressions": case["exprs"][:5]}}


def _both(e1, e2, t):
    a, b = real_eval(e1, t), real_eval(e2, t)
    return a, b


def check_law(case):
    viol, evals, nontrivial = [], 0, 0
    outcomes = set()

    def require_equal(law, e1, e2, t, ti, need_both_ok=True):
        nonlocal evals, nontrivial
        evals += 1
        a, b = _both(e1, e2, t)
        if a[0] != "ok" or b[0] != "ok":
            if need_both_ok:
                return
        nontrivial += 1
        if a[0] != "ok" and b[0] != "ok":
            return            # both sides fail (messages may differ in the spelling of a name)
        if a != b:
            outcomes.add("LAW-BROKEN:" + law)
            if len(viol) < 25:
                viol.append({"kind": "equivalence-law-broken", "detail": {"law": law, "left": e1, "right": e2, "txn": ti, "transaction": t, "left_value": a, "right_value": b},
                             "case": case})
        else:
            outcomes.add("law-holds:" + law)

    if case["law"] == "pair":
        e, f = BASIS[case["a"]], BASIS[case["b"]]
        for ti, t in enumerate(TXNS):
            ea, fa = real_eval(e, t), real_eval(f, t)
            require_equal("double-negation", f"not not ({e})", f"({e}) and true", t, ti)
            require_equal("de-morgan-and", f"not (({e}) and ({f}))", f"(not ({e})) or (not ({f}))", t, ti)
            require_equal("de-morgan-or", f"not (({e}) or ({f}))", f"(not ({e})) and (not ({f}))", t, ti)
            if ea[0] == "ok" and fa[0] == "ok":
                require_equal("and-commutes", f"({e}) and ({f})", f"({f}) and ({e})", t, ti)
                require_equal("or-commutes", f"({e}) or ({f})", f"({f}) or ({e})", t, ti)
            if case["a"] == case["b"]:
                for v in swapcase_variants(e):
                    require_equal("letter-case", e, v, t, ti, need_both_ok=False)
                t2 = dict(t, description=t["description"].swapcase())
                evals += 1
                a, b = real_eval(e, t), real_eval(e, t2)
                if "extract" not in e and "description ==" not in e or True:
                    if a != b and not ("extract(" in e):
                        outcomes.add("LAW-BROKEN:description-case")
                        viol.append({"kind": "equivalence-law-broken", "detail": {"law": "description letter case", "expression": e, "txn": ti, "a": a, "b": b,
                                                                                  "description": t["description"]}, "case": case})
                # entry-point agreement
                from tally.expr_parser import matches_transaction, ExpressionError
                from tally.merchant_engine import parse_merchants
                import copy
                evals += 1
                try:
                    m = matches_transaction(e, txn_for_real(t), dict(VARS), copy.deepcopy(ORDERS))
                    mk = ("ok", m)
                except ExpressionError:
                    mk = ("error", None)
                if ea[0] == "ok" and (mk != ("ok", bool(ea[1][1]))):
                    viol.append({"kind": "entry-points-disagree", "detail": {"expression": e, "txn": ti, "evaluate_transaction": ea, "matches_transaction": mk}, "case": case})
                eng = parse_merchants(f"threshold = 100\ntagname = \"UBER\"\n[R]\nmatch: {e}\ncategory: C\n")
                r = eng.match(txn_for_real(t), data_sources=copy.deepcopy(ORDERS))
                if ea[0] == "ok" and r.matched != bool(ea[1][1]):
                    viol.append({"kind": "entry-points-disagree", "detail": {"expression": e, "txn": ti, "evaluate_transaction": ea, "engine_matched": r.matched}, "case": case})
                # names are case-insensitive wherever they are introduced: a let: binding and a top-level variable spelled in capitals
                eng2 = parse_merchants(f"threshold = 100\ntagname = \"UBER\"\nTopVar = {e}\n[R]\nlet: LetVar = {e}\nmatch: letvar and TOPVAR or (not LETVAR and not topvar)\ncategory: C\n")
                r2 = eng2.match(txn_for_real(t), data_sources=copy.deepcopy(ORDERS))
                evals += 1
                if ea[0] == "ok" and not r2.matched:
                    viol.append({"kind": "entry-points-disagree", "detail": {"expression": e, "txn": ti, "evaluate_transaction": ea,
                                                                              "rule_with_capitalised_let_and_variable_matched": r2.matched}, "case": case})
    elif case["law"] == "engine-mix":
        from tally.merchant_engine import parse_merchants
        import copy
        a, b = BASIS[case["a"]], BASIS[case["b"]]
        for c in BASIS:
            for e in (f"{a} and {b} or {c}", f"{a} or {b} and {c}"):
                eng = parse_merchants(f"threshold = 100\ntagname = \"UBER\"\n[R]\nmatch: {e}\ncategory: C\n")
                for ti, t in enumerate(TXNS):
                    evals += 1
                    ev = real_eval(e, t)
                    if ev[0] != "ok":
                        continue
                    nontrivial += 1
                    r = eng.match(txn_for_real(t), data_sources=copy.deepcopy(ORDERS))
                    if r.matched != bool(ev[1][1]):
                        viol.append({"kind": "entry-points-disagree", "detail": {"expression": e, "txn": ti, "evaluate_transaction": ev, "engine_matched": r.matched}, "case": case})
                    else:
                        outcomes.add("engine-agrees")
    elif case["law"] == "chains":
        nums = case["nums"]
        for a, b, c in itertools.product(nums, repeat=3):
            for o1, o2 in itertools.product(("<", "<=", ">", ">=", "==", "!="), repeat=2):
                for ti, t in enumerate(TXNS[:6]):
                    require_equal("chain-is-conjunction", f"{a} {o1} {b} {o2} {c}", f"({a} {o1} {b}) and ({b} {o2} {c})", t, ti)
    else:
        bad = ["nope", "1 / description > 0", 'regex("(")', "orders[99]", "next(r for r in orders if false)"]
        for ti, t in enumerate(TXNS):
            for x in bad:
                for e, want in ((f"false and {x}", False), (f"true or {x}", True), (f"false and {x} and {x}", False), (f"(true or {x}) and (false and {x})", False),
                                (f"1 if true else {x}", 1), (f"{x} if false else 2", 2)):
                    evals += 1
                    nontrivial += 1
                    g = real_eval(e, t)
                    if g[0] != "ok" or g[1][1] != want:
                        viol.append({"kind": "short-circuit-broken", "detail": {"expression": e, "txn": ti, "expected": want, "real": g}, "case": case})
                    else:
                        outcomes.add("short-circuit-ok")
            # := binds inside ONE expression: the next expression of the same rule file (another rule, a let:, a global variable) starts clean
            from tally.merchant_engine import parse_merchants
            for text, want_cat in (('[A]\nmatch: (n := amount) > 100000000\ncategory: A\n\n[B]\nlet: n = 5\nmatch: n == 5\ncategory: B\n', "B"),
                                   ('g = (k := 7) > 0\n\n[B]\nlet: k = 1\nmatch: g and k == 1\ncategory: B\n', "B"),
                                   ('[A]\nmatch: (q := 1) == 2\ncategory: A\n\n[B]\nmatch: q == 1\ncategory: B\n', ""),
                                   ('limit = 10\n\n[A]\nmatch: (limit := 1000000) < 0\ncategory: A\n\n[B]\nmatch: amount < limit or amount >= limit\ncategory: B\ntags: {limit}\n', "B")):
                evals += 1
                nontrivial += 1
                try:
                    rr = parse_merchants(text).match(txn_for_real(t))
                    got_cat = rr.category or ""
                    extra = sorted(rr.tags)
                except Exception as ex:  # noqa
                    got_cat, extra = f"{type(ex).__name__}: {ex}", []
                if got_cat != want_cat or (want_cat == "B" and "tags:" in text and extra != ["10"]):
                    viol.append({"kind": "evaluation-order-broken", "detail": {"rules": text, "txn": ti, "expected_category": want_cat, "got_category": got_cat, "tags": extra}, "case": case})
                else:
                    outcomes.add("walrus-scope-ok")
            for e, want in (("(a := 1) and (b := a + 1) and b == 2", True), ("(a := 0) or (b := 5) and b == 5", True),
                            ("(a := amount) == amount and a == amount", True), ("[(c := 2), c + 1][1] if false else ((c := 3) and c == 3)", True),
                            ("(x := 1) + (x := 2) * x", 5), ("(k := 1) < (k := 2) < (k := 3) and k == 3", True), ("(k := 5) < (k := 2) < (k := 3) or k == 2", True)):
                evals += 1
                rk, rv = ref_eval(e, t)
                g = real_eval(e, t)
                if rk == "ok":
                    nontrivial += 1
                    if g[0] != "ok" or g[1] != rv:
                        viol.append({"kind": "evaluation-order-broken", "detail": {"expression": e, "txn": ti, "reference": rv, "real": g}, "case": case})
                    else:
                        outcomes.add("order-ok")
    return {"evals": evals, "nontrivial": nontrivial, "outcomes": sorted(outcomes), "violations": viol[:25], "sample_repr": case}


def check_case(case):
    return check_ref(case) if case["kind"] == "ref" else check_law(case)
