"""C07 - classification depends only on the current rules and the transaction, not on history.

Explicit-state search over operation histories on the real process-global state (the engine cache of
merchant_utils, the expression and regex caches of expr_parser, per-engine caches).  A state is the
history that reaches it.  For every history h of length <= D over 25 operations (8 loads incl. a
reload that rewrites a file on disk, 5 classifications, 2 engine matches, 4 expression evaluations) the
worker forks a child that replays h on the real code from the pristine import-time state; the child then
forks one grandchild per observation operation o, which executes o in the state reached by h.  Invariant
on every transition (h, o): the observed result equals the result of o in a FRESH process that performed
only the most recent load of h, and the rules list, supplemental rows and caller's field dict are
deep-equal before and after.
"""
import copy
import datetime as dt
import itertools
import json
import os
import pickle
import shutil
import sys
import tempfile
import traceback
import multiprocessing as mp
from collections import Counter

from mc.core import harness as H
from mc.core import proc

PROPERTY = "C07"
LEVEL = "model_checking"
RULE = ("states = operation histories (no merging: a state is its history) of length 0..D (D=3 quick, 4 thorough; histories of length D start with a load or reload) over 25 operations; "
        "transitions = (history, observation) pairs, every one executed on the real code in a process forked from the state the history reached; "
        "reference = the same observation in a fresh process after only the most recent load; two of the operations are whole in-process `tally up` runs "
        "on a .rules budget and a legacy-CSV budget (observed after every history shorter than D; library observations made after such a run and before "
        "the next explicit load are not judged, because the run loads rules of its own)")
ASSUMPTIONS = ["a process forked from the harness worker (tally imported, nothing loaded or evaluated) is the 'fresh process' reference",
               "two rule files per format, 5 transactions, 8 expressions, two budgets; depth bound as stated"]

A_RULES = '''is_big = amount > 100
is_wire = field.type == "WIRE"
field.description = regex_replace(field.description, "^SQ \\\\*", "")

[Wire]
let: k = field.type
match: is_wire
category: Bank
field: kind = k

[Num]
match: regex("^\\\\d+$")
category: Digits
subcategory: Numeric

[Netflix]
match: contains("NETFLIX")
category: Subs
subcategory: Streaming
tags: a, {field.type}
field: seen = "yes"

[Ordered]
match: any(r.amount == amount for r in orders)
category: Ordered

[Big]
match: is_big
category: Big
tags: large

[OrderedItem]
match: any(r.amount == amount and r.item == "Book" for r in orders)
category: OrderedBook
'''
B_RULES = '''is_big = amount > 1000
is_wire = field.type == "ACH"

[Num]
match: regex("^\\\\D+$")
category: Letters

[Netflix]
match: contains("netflix") and amount < 100
category: Media
subcategory: TV
tags: b

[Wire]
let: k = source
match: is_wire and k == "Bank"
category: AchBank

[Big]
match: is_big
category: Huge
'''
C_CSV = '''Pattern,Merchant,Category,Subcategory,Tags
NETFLIX,NetflixCsv,CsvSubs,CsvStreaming,csv|c
N.TFLIX,NetTag,,,more|tags
^\\d+$,DigitsCsv,CsvDigits,,
ABC[amount>100],AbcBig,CsvBig,,
'''
D_CSV = '''Pattern,Merchant,Category,Subcategory,Tags
NETFLIX[amount>100],NetflixBig,DBig,,d
ABC[date:last120days],AbcRecent,DRecent,,
^\\D+$,LettersCsv,DLetters,,
'''
BAD_RULES = '''[Broken
match: contains("NETFLIX")
category: Never
'''

TXNS = [
    {"description": "NETFLIX 123", "amount": 50.0, "date": "2025-01-15", "field": {"type": "WIRE", "memo": "m"}, "source": "Bank"},
    {"description": "NETFLIX 123", "amount": 50.0, "date": "2025-01-15", "field": {"type": "ACH", "memo": "m"}, "source": "Bank"},
    {"description": "12345", "amount": 500.0, "date": "2025-02-01", "field": None, "source": "Card"},
    {"description": "SQ *NETFLIX", "amount": 150.0, "date": None, "field": {"type": "ach"}, "source": None},
    {"description": "ABC", "amount": 99.75, "date": "2025-03-01", "field": {"type": "WIRE"}, "source": "Bank"},
]
ORDERS = {"orders": [{"item": "Book", "amount": 99.75, "date": dt.date(2025, 3, 1)}, {"item": "Pen", "amount": 0.25, "date": dt.date(2025, 2, 1)},
                     # a ragged row (short line of the supplemental file): no "item" cell. [OrderedItem] reads r.item on it for the 500.00 transaction
                     {"amount": 500.0, "date": dt.date(2025, 2, 2)}]}
EXPRS = ['regex("^\\\\d+$")', 'regex("^\\\\D+$")', 'description.replace("a", "b") + extract("^(\\\\d+)$")',
         'description.replace("A", "b") + extract("^(\\\\D+)$")',
         # binds a name with := ; the next one reads that name without binding it (unknown in a fresh process)
         '(ref := extract("^(\\\\d+)$")) != "" and ref == "12345"', 'ref != "zzz"',
         # the same text / pattern pair judged against two thresholds (a cached similarity must not depend on who asked first)
         'fuzzy("STARBUCKS", 0.6)', 'fuzzy("STARBUCKS", 0.95)']
FUZZY_TEXT = "STARBUKCS GIFT RELOAD AT STARBUCKS 04521 SEATTLE WA"

LOADS = [("load", "A.rules", "first_match"), ("load", "A.rules", "most_specific"), ("load", "B.rules", "first_match"),
         ("load", "C.csv", "first_match"), ("load", "D.csv", "first_match"), ("load", "bad.rules", "first_match"),
         ("load", None, "first_match"), ("reload", "A.rules", "first_match")]
OBS = [("classify", i) for i in range(5)] + [("match", 0), ("match", 2)] + [("eval", i) for i in range(8)] + [("cli", "budgetR"), ("cli", "budgetC")]
OPS = LOADS + OBS


def op_name(op):
    return ":".join(str(x) for x in op)


# ------------------------------------------------------------------------------------------------ the real operations
class World:
    """Per-process mutable context of a history replay: the scratch directory and what the last load returned."""

    def __init__(self, d):
        self.dir = d
        self.rules = []
        self.transforms = []
        self.a_version = "A"

    def path(self, name):
        return os.path.join(self.dir, name)


def fresh_world():
    d = tempfile.mkdtemp(prefix="c07-", dir=H.TMP)
    for name, text in (("A.rules", A_RULES), ("B.rules", B_RULES), ("C.csv", C_CSV), ("D.csv", D_CSV), ("bad.rules", BAD_RULES)):
        with open(os.path.join(d, name), "w", encoding="utf-8") as f:
            f.write(text)
    # two small budgets for whole `tally up` runs inside the same process: one with a merchants.rules file, one with a legacy CSV
    stmt = "Date,Description,Amount\n01/15/2025,NETFLIX 123,50.00\n02/01/2025,12345,500.00\n03/01/2025,ABC,99.75\n"
    for name, rules_name, rules_text, extra in (("budgetR", "merchants.rules", B_RULES, "merchants_file: config/merchants.rules\n"),
                                                ("budgetC", "merchant_categories.csv", C_CSV, "")):
        os.makedirs(os.path.join(d, name, "config"))
        os.makedirs(os.path.join(d, name, "data"))
        with open(os.path.join(d, name, "data", "s.csv"), "w") as f:
            f.write(stmt)
        with open(os.path.join(d, name, "config", rules_name), "w", encoding="utf-8") as f:
            f.write(rules_text)
        with open(os.path.join(d, name, "config", "settings.yaml"), "w") as f:
            f.write("year: 2025\n" + extra + 'data_sources:\n  - name: Bank\n    file: data/s.csv\n    format: "{date:%m/%d/%Y},{description},{amount}"\n')
    return World(d)


def do_op(w, op):
    """Execute one operation on the real code. Returns an observation for observation ops, None for loads."""
    from tally.merchant_utils import get_all_rules, get_transforms, normalize_merchant
    from tally.merchant_engine import parse_merchants
    from tally.expr_parser import evaluate_transaction
    kind = op[0]
    if kind in ("load", "reload"):
        _, name, mode = op
        if kind == "reload":
            with open(w.path("A.rules"), "w", encoding="utf-8") as f:
                f.write(B_RULES)
            w.a_version = "B"
        p = w.path(name) if name else None
        w.transforms = get_transforms(p, match_mode=mode)
        w.rules = get_all_rules(p, match_mode=mode)
        return None
    if kind == "classify":
        t = TXNS[op[1]]
        rules_before = repr(w.rules)
        ds = copy.deepcopy(ORDERS)
        field = copy.deepcopy(t["field"])
        try:
            r = normalize_merchant(t["description"], w.rules, amount=t["amount"],
                                   txn_date=dt.date.fromisoformat(t["date"]) if t["date"] else None,
                                   field=field, data_source=t["source"], transforms=w.transforms, data_sources=ds)
            info = r[3] or {}
            obs = {"merchant": r[0], "category": r[1], "subcategory": r[2], "tags": sorted(info.get("tags", [])),
                   "extra": info.get("extra_fields") or {}, "pattern": info.get("pattern")}
        except Exception as e:  # noqa
            obs = {"exception": f"{type(e).__name__}: {e}"}
        obs["mutated"] = [n for n, ok in (("rules", repr(w.rules) == rules_before), ("data_sources", ds == ORDERS),
                                           ("field", field == t["field"])) if not ok]
        return obs
    if kind == "match":
        t = TXNS[op[1]]
        txn = {"description": t["description"], "amount": t["amount"], "field": copy.deepcopy(t["field"]), "source": t["source"]}
        if t["date"]:
            txn["date"] = dt.date.fromisoformat(t["date"])
        before = copy.deepcopy(txn)
        try:
            eng = parse_merchants(A_RULES)
            r = eng.match(txn, data_sources=copy.deepcopy(ORDERS))
            obs = {"matched": r.matched, "merchant": r.merchant, "category": r.category, "subcategory": r.subcategory,
                   "tags": sorted(r.tags), "extra": dict(r.extra_fields)}
        except Exception as e:  # noqa
            obs = {"exception": f"{type(e).__name__}: {e}"}
        obs["mutated"] = [] if txn == before else ["transaction"]
        return obs
    if kind == "cli":
        # a complete `tally up --format json` on one of the budgets, in THIS process (what a long-lived caller of tally.cli.main does)
        import contextlib
        import io
        import sys
        import tally.cli as cli
        cwd, argv = os.getcwd(), sys.argv
        out, err = io.StringIO(), io.StringIO()
        try:
            os.chdir(w.path(op[1]))
            sys.argv = ["tally", "up", "--format", "json"]
            with contextlib.redirect_stdout(out), contextlib.redirect_stderr(err):
                try:
                    cli.main()
                    code = 0
                except SystemExit as e:
                    code = e.code or 0
        except Exception as e:  # noqa
            return {"values": f"EXC {type(e).__name__}: {e}", "mutated": []}
        finally:
            os.chdir(cwd)
            sys.argv = argv
        try:
            text = out.getvalue()
            data = proc.json_document(text)
            vals = sorted((m["name"], m["category"], m["subcategory"], sorted(m.get("tags", []))) for m in data["merchants"])
        except Exception as e:  # noqa
            vals = f"exit {code}: no JSON report ({type(e).__name__})"
        return {"values": vals, "mutated": []}
    if kind == "eval":
        res = []
        for t in (TXNS[2], TXNS[4], {"description": FUZZY_TEXT, "amount": 1.0}):
            txn = {"description": t["description"], "amount": t["amount"]}
            try:
                res.append(repr(evaluate_transaction(EXPRS[op[1]], txn)))
            except Exception as e:  # noqa
                res.append(f"EXC {type(e).__name__}")
        return {"values": res, "mutated": []}
    raise ValueError(op)


def ref_key(hist):
    """What a fresh process must have done for the reference: only the most recent load (with the file version it saw)."""
    a_version = "A"
    last = None
    for i in hist:
        op = OPS[i]
        if op[0] == "reload":
            a_version = "B"
        if op[0] in ("load", "reload"):
            name = op[1]
            last = (name, op[2], a_version if name == "A.rules" else None)
    return last


def _run_in_child(fn):
    """fork; child returns pickled fn() through a pipe."""
    r, wfd = os.pipe()
    pid = os.fork()
    if pid == 0:
        os.close(r)
        try:
            res = ("ok", fn())
        except BaseException as e:  # noqa
            res = ("exc", f"{type(e).__name__}: {e}\n{traceback.format_exc()}")
        try:
            with os.fdopen(wfd, "wb") as f:
                pickle.dump(res, f)
        finally:
            os._exit(0)
    os.close(wfd)
    with os.fdopen(r, "rb") as f:
        data = f.read()
    os.waitpid(pid, 0)
    kind, val = pickle.loads(data)
    if kind == "exc":
        raise H.HarnessError("child failed: " + val)
    return val


def explore_history(hist, with_cli=True):
    """In a child forked from the pristine worker: replay hist, then fork one grandchild per observation
    (whole-CLI observations, the costly ones, only when asked: None stands for "not observed")."""
    def child():
        w = fresh_world()
        try:
            for i in hist:
                do_op(w, OPS[i])
            out = []
            for oi in range(len(LOADS), len(OPS)):
                if OPS[oi][0] == "cli" and not with_cli:
                    out.append(None)
                    continue
                out.append(_run_in_child(lambda oi=oi: do_op(w, OPS[oi])))
            return out
        finally:
            shutil.rmtree(w.dir, ignore_errors=True)
    return _run_in_child(child)


def reference_for(key):
    """Fresh process: perform only the load described by key (or nothing), then each observation in its own fresh child."""
    out = []
    for oi in range(len(LOADS), len(OPS)):
        def run(oi=oi):
            w = fresh_world()
            try:
                if key is not None:
                    name, mode, ver = key
                    if ver == "B":
                        with open(w.path("A.rules"), "w", encoding="utf-8") as f:
                            f.write(B_RULES)
                    do_op(w, ("load", name, mode))
                return do_op(w, OPS[oi])
            finally:
                shutil.rmtree(w.dir, ignore_errors=True)
        out.append(_run_in_child(run))
    return out


def _worker(args):
    shard, nshards, depth, rot = args
    try:
        H.import_tally()
        refs = {}
        agg = {"states": 0, "transitions": 0, "viol": [], "viol_count": 0, "outcomes": Counter(), "depth": 0, "samples": []}
        idx = 0
        for n in range(0, depth + 1):
            for hist in itertools.product(range(len(OPS)), repeat=n):
                # the longest histories start with a (re)load: without one nothing is loaded that later operations could disturb
                # (a pure sequence of observations of that length is covered one level down, where it is unconstrained)
                if n == depth and n >= 3 and hist[0] >= len(LOADS):
                    continue
                idx += 1
                if (idx + rot) % nshards != shard:
                    continue
                key = ref_key(hist)
                if key not in refs:
                    refs[key] = reference_for(key)
                # whole command-line runs are observed after every history one shorter than the longest (they still occur INSIDE the longest)
                got = explore_history(hist, with_cli=(n < depth or n < 3))
                agg["states"] += 1
                agg["depth"] = max(agg["depth"], n + 1)
                # a whole `tally up` run loads rules of its own: library observations made after one (and before the next explicit load) have
                # no well-defined "current rules" and are not judged; the CLI observations themselves are always judged
                last_load = max([j for j, o in enumerate(hist) if o < len(LOADS)], default=-1)
                cli_after = any(OPS[o][0] == "cli" for o in hist[last_load + 1:])
                for k, (g, r) in enumerate(zip(got, refs[key])):
                    oi = len(LOADS) + k
                    if g is None or (cli_after and OPS[oi][0] in ("classify", "match")):
                        continue
                    agg["transitions"] += 1
                    # observations that do not use the loaded rules have the no-load reference too
                    agg["outcomes"][H.jdump(g, sort_keys=True)[:160]] += 1
                    if g != r:
                        agg["viol_count"] += 1
                        if len(agg["viol"]) < 40:
                            kind = "state-mutated" if g.get("mutated") else "history-dependent-result"
                            agg["viol"].append({"kind": kind, "case": {"history": [op_name(OPS[i]) for i in hist], "observe": op_name(OPS[oi])},
                                                "detail": {"in_history": g, "fresh_process_after_last_load": r, "last_load": key}})
                    elif g.get("mutated"):
                        agg["viol_count"] += 1
                        if len(agg["viol"]) < 40:
                            agg["viol"].append({"kind": "state-mutated", "case": {"history": [op_name(OPS[i]) for i in hist], "observe": op_name(OPS[oi])},
                                                "detail": {"mutated": g["mutated"]}})
                if len(agg["samples"]) < 2 and n >= 2:
                    agg["samples"].append({"history": [op_name(OPS[i]) for i in hist], "then_each_of": [op_name(o) for o in OBS],
                                           "first_observation": got[0]})
        agg["outcomes"] = dict(agg["outcomes"])
        return agg
    except BaseException as e:  # noqa
        return {"fatal": f"{type(e).__name__}: {e}\n{traceback.format_exc()}"}


def bounds(tier):
    return {"history_depth": 3 if tier == "quick" else 4, "longest_histories_start_with_a_load": True, "operations": [op_name(o) for o in OPS]}


def run_custom(tier, seed):
    depth = 3 if tier == "quick" else 4
    n = H.NPROC
    ctx = mp.get_context("fork")
    with ctx.Pool(n) as pool:
        parts = pool.map(_worker, [(s, n, depth, seed % n) for s in range(n)])
    agg = H._new_agg()
    for p in parts:
        if "fatal" in p:
            raise H.HarnessError("worker failed: " + p["fatal"])
        agg["states"] += p["states"]
        agg["transitions"] += p["transitions"]
        agg["depth"] = max(agg["depth"], p["depth"])
        agg["viol_count"] += p["viol_count"]
        agg["outcomes"].update(p["outcomes"])
        agg["samples"].extend(p["samples"])
        for v in p["viol"]:
            agg["violations"].append(v)
            agg["viol_kinds"][v["kind"]] += 1
    agg["cases"] = agg["states"]
    agg["evals"] = agg["transitions"]
    agg["nontrivial"] = agg["states"]
    # known findings bookkeeping (counts) for evidence
    known = H.load_known_findings(PROPERTY)
    for v in agg["violations"]:
        kf = next((e["id"] for e in known if H.finding_matches(e, v)), None)
        if kf:
            agg["extra"]["known:" + kf] += 1
    return agg


def check_case(case):
    """Replay of one recorded (history, observation) pair."""
    H.import_tally()
    names = [op_name(o) for o in OPS]
    hist = tuple(names.index(x) for x in case["history"])
    oi = names.index(case["observe"])
    key = ref_key(hist)
    ref = reference_for(key)[oi - len(LOADS)]
    got = explore_history(hist)[oi - len(LOADS)]
    viol = []
    if got != ref:
        viol.append({"kind": "state-mutated" if got.get("mutated") else "history-dependent-result",
                     "detail": {"in_history": got, "fresh_process_after_last_load": ref}})
    elif got.get("mutated"):
        viol.append({"kind": "state-mutated", "detail": {"mutated": got["mutated"]}})
    return {"evals": 1, "nontrivial": 1, "outcomes": [], "violations": viol}
